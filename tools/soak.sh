#!/bin/sh
# usage: tools/soak.sh "<seeds>" "<props>" [tier]  - run checks under many VERIF_SEED values; print only alarms.
# Evidence files are not written (RSIM_NO_EVIDENCE); replays go to /var/tmp/rv-soak-replays.
cd "$(dirname "$0")/.." || exit 2
SEEDS="${1:-1 2 3 4 5 6 7 8 9 10}"
PROPS="${2:-C01 C09 C10 C11 C14 C15 C16 C17 C19}"
TIER="${3:-quick}"
bad=0
for s in $SEEDS; do
  for p in $PROPS; do
    out=$(VERIF_SEED=$s RSIM_NO_EVIDENCE=1 RSIM_REPLAY_DIR=/var/tmp/rv-soak-replays timeout 3000 ./check "$p" --tier "$TIER" 2>&1)
    rc=$?
    if [ $rc -ne 0 ]; then
      bad=$((bad+1))
      echo "=== ALARM seed=$s prop=$p rc=$rc"
      echo "$out" | grep -E "VIOLATION|^violation|HARNESS|NONDETERMINISM|Traceback|Error" | head -12
    else
      echo "ok seed=$s prop=$p $(echo "$out" | grep -E '^\[C' | tail -1 | sed 's/.*cases=/cases=/')"
    fi
  done
done
echo "soak finished: $bad alarms"
exit $([ $bad -eq 0 ] && echo 0 || echo 1)
