#!/usr/bin/env python3
"""Run the pinned test suite (guard off) and compare with /root/.vp/BASELINE.json.
usage: run_baseline.py [repo_dir]  -> exit 0 iff every stable_pass test passed."""
import json, os, subprocess, sys, tempfile
import xml.etree.ElementTree as ET
repo = sys.argv[1] if len(sys.argv) > 1 else "/repo"
base = json.load(open("/root/.vp/BASELINE.json"))
fd, xml = tempfile.mkstemp(suffix=".xml", dir="/var/tmp"); os.close(fd)
env = dict(os.environ); env.pop("REUSE_TOOL_VERIF", None)
if repo != "/repo":
    env["PYTHONPATH"] = os.path.join(repo, "src")
subprocess.run(["/venv/bin/python", "-m", "pytest", "-q", "-p", "no:cacheprovider", "--timeout=900",
                "--continue-on-collection-errors", f"--junitxml={xml}"], cwd=repo, env=env,
               stdout=subprocess.DEVNULL, stderr=subprocess.DEVNULL)
passed = set()
for tc in ET.parse(xml).getroot().iter("testcase"):
    if not any(ch.tag in ("failure", "error", "skipped") for ch in tc):
        passed.add(f"{tc.get('classname')}::{tc.get('name')}")
os.unlink(xml)
missing = [t for t in base["stable_pass"] if t not in passed]
print(f"passed={len(passed)} stable_pass={len(base['stable_pass'])} missing={len(missing)}")
for m in missing[:20]:
    print("  NOT PASSING:", m)
sys.exit(1 if missing else 0)
