CHECKS = {
 "C01": dict(
  technique="deterministic simulation with read-fault injection at the raw file seam and concurrent-mutation events, crossed with by-construction defects; oracle = small executable model of the inventory rules",
  category="exploration", ref="DESIGN.md 3.C01",
  text="Facet (d) of the statement and its interaction with the other clauses: projects that are compliant by construction receive 0-4 injected defects of known category, are linted fault-free and then with a seeded set of read faults (EACCES/ENOENT/EISDIR at open, EIO after k bytes, file deleted or replaced by a directory after enumeration) on files that must be read and on files that must not be read, under serial and SimForkPool schedules and permuted readdir order. Exit status, read_errors, files[] and each of the seven other categories must equal the model's answer. Clauses (a)-(c) over arbitrary trees are input-quantified and are NOT decided by this check.",
  note="Only canonical headers and unambiguous information sources are generated; the model (about 60 lines) is trusted; a licence used only by unreadable files may or may not be listed as unused; unreadable directories are not alarmed on."),
}
