#!/usr/bin/env python3
"""Regenerate /verif/MANIFEST.json from the tables below (single source of truth) and validate it."""
import json, os, subprocess
V = os.path.dirname(os.path.dirname(os.path.abspath(__file__)))
old = json.load(open(os.path.join(V, "MANIFEST.json")))
NA = {e["property_id"]: e["reason"] for e in old.get("not_applicable", [])}

CHECKS = {
 "C14": dict(
  technique="deterministic simulation: seeded search over pool schedules, readdir orders, hash seeds, cwd and root spellings; differential oracle across executions of one world",
  category="exploration", ref="DESIGN.md 3.C14",
  text="Each seeded project tree is executed under 5 (quick) or 8 (thorough) environments that differ in execution mode (serial, or SimForkPool with seeded worker count, task assignment, release order and chunk size), directory-enumeration order, PYTHONHASHSEED (separate interpreters), working directory, root spelling, raw-read sizes and buffer sizes; the normalised lint --json / lint --lines / spdx results and exit statuses must be identical. Sampling, not enumeration: a clean run is evidence that no dependence exists on the axes sampled, not a proof.",
  note="Trusted: SimForkPool is an adequate model of multiprocessing.Pool (workers share nothing; one real forked worker runs at a time; real pickling) - cross-checked against the real pool in the thorough tier; the normaliser compares reported paths by the file they denote; git is run for real."),
 "C17": dict(
  technique="deterministic simulation with crash-point and write-error enumeration at the raw file / os call seam; lint-before == lint-after as post-condition",
  category="fault_enumeration", ref="DESIGN.md 3.C17",
  text="For every sampled dep5 world the conversion is first executed fault-free under a seeded buffer size; then it is re-executed on a fresh copy once per mutating system-call boundary observed (crash before the event, torn write inside it) and once per write-error point (ENOSPC/EACCES at open, ENOSPC/EIO inside a write, EIO at close, EACCES/EBUSY at unlink). After each, .reuse/dep5 must be byte-identical to the original or REUSE.toml byte-identical to the fault-free output. The boundary enumeration is complete per executed conversion; worlds are sampled. The lint-before == lint-after post-condition is exercised on the same worlds; the matcher-language equivalence of the statement's quantifier is not decided by this technique.",
  note="Fault model is process death / failing system call (what reached the kernel stays); power loss is not modelled. Mutating events are those that pass io.open / os.* seams."),
 "C19": dict(
  technique="deterministic simulation: command histories against a dict model of the tree, with a per-identifier network fault plan injected at urllib.request.urlopen",
  category="exploration", ref="DESIGN.md 3.C19",
  text="Seeded histories (download IDs / --all / -o, repeats, lint, user deletions) run against projects with every LICENSES/ pre-state, from root / subdirectory / LICENSES/, with and without Git. Per identifier the simulated network answers 200+text, HTTP 404/500, URLError, timeout, non-200, a failure inside the body or a non-UTF-8 body; any subset of a batch may fail. After every step the recorded tree diff must be explained by the model: no pre-existing entry altered, new files only at LICENSES/<id>.txt or --output, exact served text, no file for a failed transfer, exit status non-zero iff something requested was not written, remaining identifiers still attempted after anticipated failures, lint has no missing licence after a successful --all.",
  note="The network is a stub (no network exists here); disk faults are not injected for this property (the statement speaks of transfer failures). In-body failures end in a traceback today; only 'no partial file, non-zero status' is required for them."),
}

ADDED = {
 "C01": "snippet markers on 4096 boundaries; symlinks; 18-110 file trees (also under a descriptor limit of 40-64); tracked-but-ignored files, adjacent ignored directories, user-level ignore rules, Git's top level above the project; submodules, Meson subprojects; REUSE.toml hierarchies; annotations with overlapping and star-adjacent globs; hard-linked names; empty .license companions.",
 "C09": "several files per invocation (set order from the hash seed), twins of one type, same-suffix files of different types, never-named bystander files; failing opens and writes of the target; a named file that cannot be annotated; histories typed from a sub-directory; headers beyond 4 KiB; 'exit 0 means every named file was annotated or skipped on request'.",
 "C10": "a fresh interpreter and hash seed per command; simulated file modification times and file ages; calendar edges (ISO-week year, leap day); per-command directory-listing order; stdout reader gone; a first run that dies while writing; a concurrent re-run on a sibling file at a chosen file-system event; template variants side by side; stacked suffixes; byte order marks; ready-made notices, notice-like and terminator-ending contributors; deprecated '+' identifiers; binary files with --style.",
 "C11": "hash-seed-ordered batches, twins that render to the same header, batches of 36-70 files with multiprocessing allowed under a seeded pool schedule and a descriptor limit; aliases (hard link / symlink) of an unrecognised file; paths that do not exist; broken standard error; information-dropping and partially dropping templates with complete 'commented' decoys; recursion from sub-directories.",
 "C14": "the project directory's own name; submodules; roots spelled through symlinks; duplicate licence files; worlds borrowed from C01 (hierarchies, overlapping globs, hard links); cpu_count imported by name; real multiprocessing.Pool as fidelity variant (thorough).",
 "C15": "name-prefix siblings and back-up-like names; non-UTF-8 ignored names; adjacent ignored directories; user-level ignore rules; submodules; annotate from elsewhere (cwd / --root); explicitly named symlinks; symlinked and dangling .license companions and download destinations; disk-full and open failures during annotate; slow Git (deadline expiry); spdx -o on an unloadable project; every excluded file name of the statement; free-text identifiers.",
 "C16": "stat-level faults; FIFOs; files and dep5 vanishing between listing and use; odd expressions; non-UTF-8 LicenseRef texts; mixed-type arrays under all hash seeds; keys repeated inside tables; format-sensitive project and directory names; symlink loops; one-CPU machines; completion-order pool results; stdout/stderr readers gone at descriptor level (deaths by signal are outcomes); histories that begin with a dying annotate.",
 "C17": "escapes and wildcard-adjacent patterns with one signature per feature; prefix-overlapping pattern groups; identical paragraphs around a narrower one; symlinked dep5; next-line and oddly separated copyright values; raw-descriptor writes; non-UTF-8 locale; second conversion must be refused; cwd other than the root.",
 "C19": "permuted --source directories with look-alike neighbours; nested directories called LICENSES as cwd; existing targets crossed with failing transfers; transient HTTP statuses, 204/206; non-ASCII texts under a non-UTF-8 locale; identifiers that begin like another; deprecated identifiers.",
}


def entry(pid, c):
    c = dict(c, text=c["text"] + " Axes added while testing against independently written breaking changes (DESIGN.md 11): " + ADDED.get(pid, "-"))
    return {"property_id": pid, "quick_cmd": f"./check {pid} --tier quick", "thorough_cmd": f"./check {pid} --tier thorough",
            "evidence_file": f"evidence/{pid}.json", "replay_cmd_template": f"./check {pid} --replay {{path}}", "engine": "rsim",
            "technique": c["technique"],
            "level_claimed": {"category": c["category"], "design_ref": c["ref"], "text": c["text"]}, "level_note": c["note"]}

def main():
    import importlib.util
    extra = os.path.join(V, "tools", "manifest_more.py")
    if os.path.exists(extra):
        spec = importlib.util.spec_from_file_location("manifest_more", extra); m = importlib.util.module_from_spec(spec); spec.loader.exec_module(m)
        CHECKS.update(m.CHECKS)
    claimed = sorted(CHECKS)
    man = dict(old)
    man["checks"] = [entry(p, CHECKS[p]) for p in claimed]
    man["not_applicable"] = [{"property_id": k, "reason": v} for k, v in sorted(NA.items()) if k not in CHECKS]
    man["engines"][0]["serves_properties"] = claimed
    man["notes"] = ("Checks honour VERIF_SEED and VERIF_TIER; exit 0 held / 1 violation (with replay file) / 2 harness trouble. "
                    "./check selftest-determinism and tools/run_mutants.py are the harness's own self-tests. known_findings.json lists recorded and fixed defects.")
    json.dump(man, open(os.path.join(V, "MANIFEST.json"), "w"), indent=1)
    try:
        import jsonschema
        jsonschema.validate(man, json.load(open("/root/.vp/MANIFEST.schema.json")))
        print("MANIFEST valid;", claimed)
    except ImportError:
        print("written (jsonschema not available for validation)")

main()
