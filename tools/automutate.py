#!/usr/bin/env python3
"""Mechanical mutation campaign: how many small, test-suite-surviving changes of /repo/src do the checks notice?

  automutate.py gen   [--n N] [--seed S]     enumerate mutation sites in src/reuse, sample N, write OUT/<k>.json
  automutate.py test  [--jobs J]             run the pinned suite (-x) on each sampled mutant; record who survives
  automutate.py check [--only k,k,...]       run the relevant quick checks on each survivor; record who is caught
  automutate.py table                        write selftest/automut/RESULTS.md from the records

Everything happens in copies of /repo under /dev/shm/automut (removed as soon as a mutant is done); /repo itself is
never touched. The records (one small JSON per mutant) are kept under selftest/automut/.
"""
import ast, json, os, random, shutil, subprocess, sys
from concurrent.futures import ProcessPoolExecutor

V = os.path.dirname(os.path.dirname(os.path.abspath(__file__)))
OUT = os.path.join(V, "selftest", "automut")
SCRATCH = "/dev/shm/automut"
SRC = "/repo/src/reuse"
DESELECT = [
    "tests/test_cli_annotate.py::TestAnnotate::test_to_read_only_file_forbidden",
    "tests/test_cli_main.py::TestMain::test_help_is_default",
    "tests/test_lint.py::test_lint_read_errors",
    "tests/test_lint.py::test_lint_lines_read_errors",
    "tests/test_project.py::test_reuse_info_of_uncommentable_file",
    "tests/test_report.py::TestGenerateProjectReport::test_read_error",
    "tests/test_report.py::TestProjectSubsetReport::test_read_error",
]
# which checks have a say about which file
RELEVANT = {
    "cli/annotate.py": ["C09", "C10", "C11", "C15"],
    "_annotate.py": ["C09", "C10", "C11", "C15"],
    "header.py": ["C09", "C10", "C11"],
    "comment.py": ["C10", "C11", "C09"],
    "copyright.py": ["C09", "C10"],
    "cli/download.py": ["C19", "C15"],
    "download.py": ["C19", "C15"],
    "convert_dep5.py": ["C17"],
    "cli/convert_dep5.py": ["C17", "C15"],
    "report.py": ["C01", "C14", "C16"],
    "project.py": ["C01", "C14", "C16", "C15"],
    "covered_files.py": ["C01", "C15", "C14"],
    "global_licensing.py": ["C01", "C16", "C17", "C14"],
    "vcs.py": ["C01", "C15", "C14"],
    "extract.py": ["C01", "C16", "C10"],
    "lint.py": ["C01", "C14", "C16"],
    "cli/lint.py": ["C01", "C14", "C16"],
    "cli/lint_file.py": ["C14", "C16"],
    "cli/spdx.py": ["C14", "C16"],
    "cli/common.py": ["C16", "C14", "C01"],
    "cli/main.py": ["C16", "C14"],
    "_util.py": ["C16", "C01", "C19"],
    "types.py": ["C01"],
    "__init__.py": ["C01", "C09"],
    "exceptions.py": [],
}
WEIGHT = {"cli/annotate.py": 3, "_annotate.py": 3, "header.py": 3, "cli/download.py": 3, "download.py": 3,
          "convert_dep5.py": 3, "cli/convert_dep5.py": 3, "report.py": 3, "project.py": 3, "covered_files.py": 2,
          "global_licensing.py": 2, "vcs.py": 1, "extract.py": 1, "comment.py": 1, "copyright.py": 1}


def sites(rel):
    path = os.path.join(SRC, rel)
    text = open(path).read()
    lines = text.split("\n")
    tree = ast.parse(text)
    out = []

    def seg(node):
        return ast.get_source_segment(text, node)

    def rep(node, new, kind):
        if node.lineno != node.end_lineno:
            return
        line = lines[node.lineno - 1]
        # col offsets are in utf-8 bytes
        b = line.encode()
        newline = (b[:node.col_offset] + new.encode() + b[node.end_col_offset:]).decode()
        out.append({"file": rel, "line": node.lineno, "kind": kind, "old": line, "new": newline})

    def line_rep(lineno, newline, kind):
        out.append({"file": rel, "line": lineno, "kind": kind, "old": lines[lineno - 1], "new": newline})

    docstrings = set()
    for node in ast.walk(tree):
        if isinstance(node, (ast.FunctionDef, ast.ClassDef, ast.Module, ast.AsyncFunctionDef)):
            if node.body and isinstance(node.body[0], ast.Expr) and isinstance(node.body[0].value, ast.Constant):
                docstrings.add(id(node.body[0].value))
    logging_lines = set()
    for node in ast.walk(tree):
        if isinstance(node, ast.Call):
            s = seg(node.func) or ""
            if s.startswith("_LOGGER.") or s in ("_", "click.echo", "click.style") or s.endswith("gettext"):
                for ln in range(node.lineno, node.end_lineno + 1):
                    logging_lines.add(ln)
    for node in ast.walk(tree):
        ln = getattr(node, "lineno", None)
        if ln in logging_lines:
            continue
        if isinstance(node, ast.Compare) and len(node.ops) == 1:
            op = node.ops[0]
            swap = {ast.Eq: "!=", ast.NotEq: "==", ast.Lt: "<=", ast.LtE: "<", ast.Gt: ">=", ast.GtE: ">",
                    ast.In: "not in", ast.NotIn: "in", ast.Is: "is not", ast.IsNot: "is"}.get(type(op))
            if swap:
                l, r = seg(node.left), seg(node.comparators[0])
                if l and r:
                    rep(node, f"{l} {swap} {r}", "compare")
        elif isinstance(node, ast.BoolOp) and len(node.values) == 2:
            a, b = seg(node.values[0]), seg(node.values[1])
            if a and b:
                rep(node, f"{a} {'or' if isinstance(node.op, ast.And) else 'and'} {b}", "boolop")
                rep(node, a, "boolop-drop-right")
                rep(node, b, "boolop-drop-left")
        elif isinstance(node, ast.UnaryOp) and isinstance(node.op, ast.Not):
            s = seg(node.operand)
            if s:
                rep(node, f"({s})", "not-removed")
        elif isinstance(node, ast.Constant) and id(node) not in docstrings:
            if node.value is True:
                rep(node, "False", "const")
            elif node.value is False:
                rep(node, "True", "const")
            elif isinstance(node.value, int) and not isinstance(node.value, bool):
                rep(node, str(node.value + 1), "const")
                if node.value:
                    rep(node, str(node.value - 1), "const")
        elif isinstance(node, ast.Call):
            f = seg(node.func) or ""
            if f == "sorted" and node.args:
                a = seg(node.args[0])
                if a and not node.keywords:
                    rep(node, f"list({a})", "sorted-removed")
            elif f in ("set", "frozenset") and len(node.args) == 1:
                pass
            elif f.endswith(".resolve") and not node.args:
                rep(node, f[: -len(".resolve")], "resolve-removed")
            elif f.endswith(".strip") or f.endswith(".rstrip") or f.endswith(".lstrip"):
                rep(node, f.rsplit(".", 1)[0], "strip-removed")
        elif isinstance(node, ast.If):
            t = seg(node.test)
            if t and node.test.lineno == node.test.end_lineno:
                rep(node.test, f"not ({t})", "if-negated")
        elif isinstance(node, (ast.Continue, ast.Break)):
            rep(node, "pass", "jump-removed")
        elif isinstance(node, ast.Return) and node.value is not None and node.lineno == node.end_lineno:
            v = seg(node.value)
            if v not in ("None", "result"):
                pass
        elif isinstance(node, ast.Raise) and node.lineno == node.end_lineno:
            rep(node, "pass", "raise-removed")
        elif isinstance(node, ast.Expr) and isinstance(node.value, ast.Call) and node.lineno == node.end_lineno:
            f = seg(node.value.func) or ""
            if not f.startswith("_LOGGER") and f not in ("click.echo",) and ln not in logging_lines:
                rep(node, "pass", "call-removed")
        elif isinstance(node, ast.AugAssign) and node.lineno == node.end_lineno:
            t, v = seg(node.target), seg(node.value)
            if t and v:
                rep(node, f"{t} = {v}", "augassign-to-assign")
        elif isinstance(node, ast.ExceptHandler) and isinstance(node.type, ast.Tuple) and node.type.lineno == node.type.end_lineno:
            elts = [seg(e) for e in node.type.elts]
            for i in range(len(elts)):
                rest = elts[:i] + elts[i + 1:]
                rep(node.type, "(" + ", ".join(rest) + ("," if len(rest) == 1 else "") + ")", "except-narrowed")
        elif isinstance(node, ast.ExceptHandler) and isinstance(node.type, ast.Name) and node.type.id in ("Exception", "OSError"):
            rep(node.type, {"Exception": "OSError", "OSError": "FileNotFoundError"}[node.type.id], "except-narrowed")
    # unique
    seen, uniq = set(), []
    for s in out:
        k = (s["file"], s["line"], s["new"])
        if k not in seen and s["old"] != s["new"]:
            seen.add(k)
            uniq.append(s)
    return uniq


def cmd_gen(n, seed):
    os.makedirs(OUT, exist_ok=True)
    allsites = []
    for rel in sorted(RELEVANT):
        if not RELEVANT[rel]:
            continue
        for s in sites(rel):
            allsites.append(s)
    rnd = random.Random(seed)
    weights = [WEIGHT.get(s["file"], 1) for s in allsites]
    chosen, seen = [], set()
    while len(chosen) < min(n, len(allsites)):
        s = rnd.choices(allsites, weights)[0]
        k = (s["file"], s["line"], s["new"])
        if k in seen:
            continue
        seen.add(k)
        chosen.append(s)
    existing = [int(f[:-5]) for f in os.listdir(OUT) if f.endswith(".json") and f[:-5].isdigit()]
    have = set()
    for k in existing:
        r = json.load(open(os.path.join(OUT, f"{k}.json")))
        have.add((r["file"], r["line"], r["new"]))
    nxt = max(existing, default=-1) + 1
    added = 0
    for s in chosen:
        if (s["file"], s["line"], s["new"]) in have:
            continue
        json.dump(s, open(os.path.join(OUT, f"{nxt}.json"), "w"), indent=1)
        nxt += 1
        added += 1
    print(f"sites={len(allsites)} sampled={len(chosen)} new={added}")


def make_copy(k, rec):
    d = os.path.join(SCRATCH, str(k))
    shutil.rmtree(d, ignore_errors=True)
    os.makedirs(d)
    for name in ("src", "tests", "pyproject.toml", "README.md", "LICENSES", "REUSE.toml", "docs"):
        p = os.path.join("/repo", name)
        if os.path.isdir(p):
            shutil.copytree(p, os.path.join(d, name), symlinks=True, ignore=shutil.ignore_patterns("__pycache__"))
        elif os.path.exists(p):
            shutil.copy(p, os.path.join(d, name))
    f = os.path.join(d, "src", "reuse", rec["file"])
    lines = open(f).read().split("\n")
    if lines[rec["line"] - 1] != rec["old"]:
        raise RuntimeError("stale mutant")
    lines[rec["line"] - 1] = rec["new"]
    open(f, "w").write("\n".join(lines))
    return d


def test_one(k):
    path = os.path.join(OUT, f"{k}.json")
    rec = json.load(open(path))
    if "suite" in rec:
        return k, rec["suite"]
    try:
        d = make_copy(k, rec)
    except RuntimeError:
        rec["suite"] = "stale"
        json.dump(rec, open(path, "w"), indent=1)
        return k, "stale"
    try:
        env = dict(os.environ, PYTHONPATH=os.path.join(d, "src"), PYTHONDONTWRITEBYTECODE="1")
        r = subprocess.run(["/venv/bin/python", "-c", "import reuse.cli.main"], env=env, cwd=d, capture_output=True)
        if r.returncode:
            rec["suite"] = "import-error"
        else:
            cmd = ["timeout", "900", "/venv/bin/python", "-m", "pytest", "-q", "-x", "-p", "no:cacheprovider", "--timeout=300"]
            for t in DESELECT:
                cmd += ["--deselect", t]
            r = subprocess.run(cmd, env=env, cwd=d, capture_output=True, text=True)
            rec["suite"] = "pass" if r.returncode == 0 else "fail"
            if r.returncode:
                tail = [l for l in r.stdout.splitlines() if l.startswith("FAILED") or l.startswith("ERROR")]
                rec["suite_detail"] = (tail[0] if tail else r.stdout[-200:])[:200]
    finally:
        shutil.rmtree(d, ignore_errors=True)
    json.dump(rec, open(path, "w"), indent=1)
    return k, rec["suite"]


def all_ids():
    return sorted(int(f[:-5]) for f in os.listdir(OUT) if f.endswith(".json") and f[:-5].isdigit())


def cmd_test(jobs):
    ids = all_ids()
    with ProcessPoolExecutor(jobs) as ex:
        for k, res in ex.map(test_one, ids):
            print(k, res, flush=True)


def cmd_check(only):
    for k in all_ids():
        if only and k not in only:
            continue
        path = os.path.join(OUT, f"{k}.json")
        rec = json.load(open(path))
        if rec.get("suite") != "pass" or ("checks" in rec and not only):
            continue
        d = make_copy(k, rec)
        try:
            src = os.path.join(d, "src")
            env = dict(os.environ, PYTHONPATH=src, RSIM_REUSE_SRC=src + "/", RSIM_NO_EVIDENCE="1",
                       RSIM_REPLAY_DIR=os.path.join(d, "replays"))
            checks = {}
            for pr in RELEVANT[rec["file"]]:
                try:
                    r = subprocess.run([os.path.join(V, "check"), pr, "--tier", "quick"], capture_output=True, text=True,
                                       errors="replace", timeout=1500, env=env)
                    sigs = sorted({l.split(": ", 1)[1] for l in r.stdout.splitlines() if l.startswith("violation: ")})
                    checks[pr] = {"exit": r.returncode, "signatures": sigs[:4]}
                except subprocess.TimeoutExpired:
                    checks[pr] = {"exit": "timeout", "signatures": []}
                if checks[pr]["exit"] == 1:
                    break  # caught; the remaining checks are not needed for the verdict
            rec["checks"] = checks
            rec["caught_by"] = [p for p, c in checks.items() if c["exit"] == 1]
        finally:
            shutil.rmtree(d, ignore_errors=True)
        json.dump(rec, open(path, "w"), indent=1)
        print(k, rec["file"], rec["line"], rec["kind"], "caught by", rec["caught_by"] or "NOBODY", flush=True)


def cmd_table():
    rows = [json.load(open(os.path.join(OUT, f"{k}.json"))) | {"k": k} for k in all_ids()]
    tested = [r for r in rows if "suite" in r]
    surv = [r for r in tested if r["suite"] == "pass"]
    checked = [r for r in surv if "checks" in r]
    caught = [r for r in checked if r["caught_by"]]
    out = ["# Mechanical mutants (tools/automutate.py)", "",
           f"sampled {len(rows)}, suite run on {len(tested)}: killed by the suite {sum(r['suite'] == 'fail' for r in tested)}, "
           f"do not import {sum(r['suite'] == 'import-error' for r in tested)}, survive the suite {len(surv)}.",
           f"Of the {len(checked)} survivors given to the relevant quick checks, {len(caught)} are caught; "
           f"the other {len(checked) - len(caught)} are classified by hand below (`verdict`).", "",
           "| # | file:line | kind | change | caught by | verdict |", "|---|---|---|---|---|---|"]
    for r in checked:
        ch = f"`{r['old'].strip()[:60]}` -> `{r['new'].strip()[:60]}`".replace("|", "\\|")
        out.append(f"| {r['k']} | {r['file']}:{r['line']} | {r['kind']} | {ch} | {', '.join(r['caught_by']) or '-'} | {r.get('verdict', '')} |")
    open(os.path.join(OUT, "RESULTS.md"), "w").write("\n".join(out) + "\n")
    print("\n".join(out[:4]))


if __name__ == "__main__":
    a = sys.argv[1:]
    def opt(name, default):
        return type(default)(a[a.index(name) + 1]) if name in a else default
    if a[0] == "gen":
        cmd_gen(opt("--n", 300), opt("--seed", 1))
    elif a[0] == "test":
        os.makedirs(SCRATCH, exist_ok=True)
        cmd_test(opt("--jobs", 8))
    elif a[0] == "check":
        only = [int(x) for x in opt("--only", "").split(",") if x]
        os.makedirs(SCRATCH, exist_ok=True)
        cmd_check(only)
    elif a[0] == "table":
        cmd_table()
