#!/usr/bin/env python3
"""Sensitivity self-test: every patch in selftest/mutants/ (and seeded/*/patch*.diff) is applied to a scratch
worktree of /repo and the quick check of its property must report a VIOLATION. Nothing touches /repo.
usage: run_mutants.py [name-substring ...]   -> exit 0 iff all were caught; writes selftest/mutants/RESULTS.json"""
import glob, json, os, re, subprocess, sys, time
V = os.path.dirname(os.path.dirname(os.path.abspath(__file__)))
pats = sys.argv[1:]
items = []
for p in sorted(glob.glob(os.path.join(V, "selftest", "mutants", "*.diff"))):
    items.append((os.path.basename(p)[:-5], os.path.basename(p).split("-")[0], p, "HEAD"))
for meta in sorted(glob.glob(os.path.join(V, "seeded", "*", "meta.json"))):
    m = json.load(open(meta))
    d = os.path.dirname(meta)
    items.append(("seeded/" + os.path.basename(d), m["property"], os.path.join(d, "patch.diff"), m.get("base_rev", "HEAD")))
if pats:
    items = [i for i in items if any(s in i[0] for s in pats)]
results, missed = {}, []
for name, prop, patch, rev in items:
    t0 = time.time()
    props = prop if isinstance(prop, list) else [prop]
    caught_by, sigs = [], []
    for pr in props:
        r = subprocess.run([os.path.join(V, "tools", "mutant.py"), "--rev", rev, "--patch", patch, "--", os.path.join(V, "check"), pr, "--tier", "quick"],
                           stdout=subprocess.PIPE, stderr=subprocess.STDOUT, text=True, timeout=1800,
                           env=dict(os.environ, RSIM_NO_EVIDENCE="1", RSIM_REPLAY_DIR="/var/tmp/rv-mutant-replays"))
        s = re.findall(r"^violation: (.+)$", r.stdout, re.M)
        if "VIOLATION property=" in r.stdout:
            caught_by.append(pr)
            sigs += s
    results[name] = {"property": props, "caught_by": caught_by, "signatures": sorted(set(sigs))[:6], "seconds": round(time.time() - t0, 1)}
    print(f"{'CAUGHT' if caught_by else 'MISSED':7s} {name:55s} {sorted(set(sigs))[:3]}", flush=True)
    if not caught_by:
        missed.append(name)
out = os.path.join(V, "selftest", "mutants", "RESULTS.json")
old = json.load(open(out)) if os.path.exists(out) and pats else {}
old.update(results)
json.dump(old, open(out, "w"), indent=1, sort_keys=True)
subprocess.run(["rm", "-rf", "/var/tmp/rv-mutant-replays"])
print(f"{len(items) - len(missed)}/{len(items)} caught; missed: {missed}")
sys.exit(1 if missed else 0)
