#!/usr/bin/env python3
"""Sensitivity self-test: every patch in selftest/mutants/ (and seeded/*/patch*.diff) is applied to a scratch
worktree of /repo and the quick check of its property must report a VIOLATION. Nothing touches /repo.
usage: run_mutants.py [name-substring ...]   -> exit 0 iff all were caught; writes selftest/mutants/RESULTS.json"""
import glob, json, os, re, subprocess, sys, time
V = os.path.dirname(os.path.dirname(os.path.abspath(__file__)))
pats = sys.argv[1:]
items = []
for p in sorted(glob.glob(os.path.join(V, "selftest", "mutants", "*.diff"))):
    items.append((os.path.basename(p)[:-5], os.path.basename(p).split("-")[0], p, "HEAD", None))
for meta in sorted(glob.glob(os.path.join(V, "seeded", "*", "meta.json"))):
    m = json.load(open(meta))
    d = os.path.dirname(meta)
    items.append(("seeded/" + os.path.basename(d), m["property"], os.path.join(d, "patch.diff"), m.get("base_rev", "HEAD"), m.get("base_commit")))
if pats:
    items = [i for i in items if any(s in i[0] for s in pats)]
results, missed = {}, []
ALSO = {"seeded/C16-Q": ["C19"], "seeded/C09-I": ["C15"]}   # changes that another property's check reports (see their meta.json)
# changes whose effect a later repair of /repo absorbs (the tool now refuses where it used to lose information): judged
# on the revision they were written against
ON_BASE = {"seeded/C09-H": "4007428"}
NOT_CLAIMED = {"seeded/C17-N"}                            # outside every statement on purpose (DESIGN 10.4)


_BASE = {}
import threading
_BASE_LOCK = threading.Lock()


def base_signatures(commit, pr):
    with _BASE_LOCK:
        if (commit, pr) not in _BASE:
            r = subprocess.run([os.path.join(V, "tools", "mutant.py"), "--rev", commit, "--", os.path.join(V, "check"), pr, "--tier", "quick"],
                               stdout=subprocess.PIPE, stderr=subprocess.STDOUT, text=True, timeout=2400,
                               env=dict(os.environ, RSIM_NO_EVIDENCE="1", RSIM_REPLAY_DIR=f"/var/tmp/rv-mutant-replays/base-{commit}-{pr}"))
            _BASE[(commit, pr)] = set(re.findall(r"^violation: (.+)$", r.stdout, re.M))
        return _BASE[(commit, pr)]


def one(item):
    name, prop, patch, rev, base_commit = item
    if name in ON_BASE:
        rev, base_commit = ON_BASE[name], None
    t0 = time.time()
    props = (prop if isinstance(prop, list) else [prop]) + ALSO.get(name, [])
    caught_by, sigs, used = [], [], rev
    for pr in props:
        for attempt_rev in [rev] + ([base_commit] if base_commit else []):
            r = subprocess.run([os.path.join(V, "tools", "mutant.py"), "--rev", attempt_rev, "--patch", patch, "--", os.path.join(V, "check"), pr, "--tier", "quick"],
                               stdout=subprocess.PIPE, stderr=subprocess.STDOUT, text=True, timeout=2400,
                               env=dict(os.environ, RSIM_NO_EVIDENCE="1", RSIM_REPLAY_DIR=f"/var/tmp/rv-mutant-replays/{os.getpid()}-{abs(hash(name)) % 10000}"))
            if "CalledProcessError" in r.stdout and "patch" in r.stdout:
                continue  # the patch no longer applies to today's HEAD (a later fix: commit rewrote those lines): use the revision it was written against
            used = attempt_rev
            break
        s = re.findall(r"^violation: (.+)$", r.stdout, re.M)
        if used != rev or name in ON_BASE:
            # an older base may violate the property by itself (that is why it was repaired): only what the change adds counts
            s = [x for x in s if x not in base_signatures(used, pr)]
        if "VIOLATION property=" in r.stdout and s:
            caught_by.append(pr)
            sigs += s
            break
    return name, {"property": props, "caught_by": caught_by, "signatures": sorted(set(sigs))[:6], "seconds": round(time.time() - t0, 1), "applied_to": used}


# neighbours in the work list belong to different properties, so that two running at a time rarely want the same scratch world
by_prop = {}
for it in items:
    by_prop.setdefault(it[1] if isinstance(it[1], str) else it[1][0], []).append(it)
order = []
while any(by_prop.values()):
    for k in sorted(by_prop):
        if by_prop[k]:
            order.append(by_prop[k].pop(0))
from concurrent.futures import ThreadPoolExecutor
with ThreadPoolExecutor(int(os.environ.get("MUTANT_JOBS", "2"))) as ex:
    for name, res in ex.map(one, order):
        results[name] = res
        ok = bool(res["caught_by"]) or name in NOT_CLAIMED
        print(f"{'CAUGHT' if res['caught_by'] else ('NOT-CLAIMED' if name in NOT_CLAIMED else 'MISSED'):11s} {name:30s} {res['signatures'][:2]} ({res['applied_to']})", flush=True)
        if not ok:
            missed.append(name)
out = os.path.join(V, "selftest", "mutants", "RESULTS.json")
old = json.load(open(out)) if os.path.exists(out) and pats else {}
old.update(results)
json.dump(old, open(out, "w"), indent=1, sort_keys=True)
subprocess.run(["rm", "-rf", "/var/tmp/rv-mutant-replays"])
print(f"{len(items) - len(missed)}/{len(items)} caught; missed: {missed}")
sys.exit(1 if missed else 0)
