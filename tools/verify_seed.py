#!/usr/bin/env python3
"""Verify an independently written breaking change and file it under /verif/seeded/.
usage: verify_seed.py <PROP> <LETTER> [--skip-tests] [--needs "text"]
Reads /tmp/wt-<PROP>/patch<LETTER>.diff and demo<LETTER>.py; in a fresh scratch worktree of /repo HEAD:
 1. the patch applies, 2. the pinned suite still passes with it, 3. the demo exits 1 with it and 0 without,
 4. the quick check of the property (and optional extra properties) is run against it.
Writes seeded/<PROP>-<LETTER>/{patch.diff,demo.py,meta.json}. Never touches /repo's working tree."""
import json, os, shutil, subprocess, sys, tempfile
V = os.path.dirname(os.path.dirname(os.path.abspath(__file__)))
prop, letter = sys.argv[1], sys.argv[2]
skip_tests = "--skip-tests" in sys.argv
needs = sys.argv[sys.argv.index("--needs") + 1] if "--needs" in sys.argv else ""
extra = sys.argv[sys.argv.index("--also") + 1].split(",") if "--also" in sys.argv else []
rev = sys.argv[sys.argv.index("--rev") + 1] if "--rev" in sys.argv else "HEAD"
note = sys.argv[sys.argv.index("--note") + 1] if "--note" in sys.argv else ""
src = sys.argv[sys.argv.index("--src") + 1] if "--src" in sys.argv else f"/tmp/wt-{prop}"
name = sys.argv[sys.argv.index("--name") + 1] if "--name" in sys.argv else f"{prop}-{letter}"
patch, demo = f"{src}/patch{letter}.diff", f"{src}/demo{letter}.py"
out = os.path.join(V, "seeded", name)
os.makedirs(out, exist_ok=True)
shutil.copy(patch, os.path.join(out, "patch.diff"))
shutil.copy(demo, os.path.join(out, "demo.py"))
d = tempfile.mkdtemp(prefix="rvseed-", dir="/var/tmp")
wt = os.path.join(d, "repo")
meta = {"property": prop, "letter": letter, "needs_to_manifest": needs, "base_rev": rev, "note": note, "ran": {}}
try:
    subprocess.run(["git", "-C", "/repo", "worktree", "add", "--detach", "-q", wt, rev], check=True)
    meta["base_commit"] = subprocess.run(["git", "-C", wt, "log", "--format=%h", "-1"], capture_output=True, text=True).stdout.strip()
    r = subprocess.run(["git", "-C", wt, "apply", os.path.join(out, "patch.diff")], capture_output=True, text=True)
    if r.returncode:
        r = subprocess.run(["git", "-C", wt, "apply", "-C1", "--recount", os.path.join(out, "patch.diff")], capture_output=True, text=True)
    meta["ran"][f"git apply on /repo {rev}"] = "ok" if r.returncode == 0 else r.stderr[-300:]
    if r.returncode:
        raise SystemExit("patch does not apply")
    if not skip_tests:
        r = subprocess.run([os.path.join(V, "tools", "run_baseline.py"), wt], capture_output=True, text=True, timeout=1500)
        meta["ran"]["pinned suite with the change (tools/run_baseline.py)"] = r.stdout.strip().splitlines()[0] if r.stdout else r.stderr[-200:]
        meta["suite_passes"] = r.returncode == 0
    env = dict(os.environ, REUSE_SRC=os.path.join(wt, "src"), PYTHONPATH=os.path.join(wt, "src"))
    r1 = subprocess.run(["/venv/bin/python", os.path.join(out, "demo.py")], capture_output=True, text=True, timeout=900, env=env, cwd=d)
    env0 = dict(os.environ, REUSE_SRC="/repo/src", PYTHONPATH="/repo/src")
    r0 = subprocess.run(["/venv/bin/python", os.path.join(out, "demo.py")], capture_output=True, text=True, timeout=900, env=env0, cwd=d)
    meta["ran"]["demo with the change"] = f"exit {r1.returncode}: {(r1.stdout + r1.stderr).strip()[-400:]}"
    meta["ran"]["demo without the change"] = f"exit {r0.returncode}: {(r0.stdout + r0.stderr).strip()[-200:]}"
    meta["demo_discriminates"] = (r1.returncode != 0 and r0.returncode == 0)
    caught = {}
    for pr in [prop] + extra:
        e2 = dict(os.environ, PYTHONPATH=os.path.join(wt, "src"), RSIM_REUSE_SRC=os.path.join(wt, "src") + "/", RSIM_NO_EVIDENCE="1",
                  RSIM_REPLAY_DIR=os.path.join(d, "replays"))
        r = subprocess.run([os.path.join(V, "check"), pr, "--tier", "quick"], capture_output=True, text=True, errors="replace", timeout=1800, env=e2)
        sigs = sorted({l.split(": ", 1)[1] for l in r.stdout.splitlines() if l.startswith("violation: ")})
        caught[pr] = {"exit": r.returncode, "signatures": sigs}
    meta["checks"] = caught
    meta["caught_by"] = [p for p, c in caught.items() if c["exit"] == 1]
finally:
    subprocess.run(["git", "-C", "/repo", "worktree", "remove", "--force", wt])
    shutil.rmtree(d, ignore_errors=True)
    json.dump(meta, open(os.path.join(out, "meta.json"), "w"), indent=1)
print(json.dumps(meta, indent=1))
