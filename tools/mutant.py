#!/usr/bin/env python3
"""Run a command against a scratch copy of /repo with a patch applied (or at a revision).
usage: mutant.py [--rev REV] [--patch FILE]... -- <command...>
The copy lives under /var/tmp, is put first on PYTHONPATH (RSIM_REUSE_SRC tells the executors to
accept it) and is removed afterwards. /repo itself is never touched."""
import os, shutil, subprocess, sys, tempfile
args = sys.argv[1:]
rev, patches = "HEAD", []
while args and args[0] != "--":
    if args[0] == "--rev": rev = args[1]; args = args[2:]
    elif args[0] == "--patch": patches.append(os.path.abspath(args[1])); args = args[2:]
    else: sys.exit("bad args")
cmd = args[1:]
d = tempfile.mkdtemp(prefix="rvmut-", dir="/var/tmp")
wt = os.path.join(d, "repo")
try:
    subprocess.run(["git", "-C", "/repo", "worktree", "add", "--detach", "-q", wt, rev], check=True)
    for p in patches:
        # seeded patches were made against the HEAD of their day; fall back to reduced context when later fixes moved lines
        if subprocess.run(["git", "-C", wt, "apply", p], stderr=subprocess.DEVNULL).returncode:
            if subprocess.run(["git", "-C", wt, "apply", "-C1", "--recount", p], stderr=subprocess.DEVNULL).returncode:
                subprocess.run(["patch", "-p1", "-F3", "-s", "-d", wt, "-i", p], check=True)
    env = dict(os.environ, PYTHONPATH=os.path.join(wt, "src") + (os.pathsep + os.environ["PYTHONPATH"] if os.environ.get("PYTHONPATH") else ""),
               RSIM_REUSE_SRC=os.path.join(wt, "src") + "/", RSIM_NO_EVIDENCE=os.environ.get("RSIM_NO_EVIDENCE", "1"), MUTANT_REPO=wt)
    rc = subprocess.run(cmd, env=env).returncode
finally:
    subprocess.run(["git", "-C", "/repo", "worktree", "remove", "--force", wt])
    shutil.rmtree(d, ignore_errors=True)
sys.exit(rc)
