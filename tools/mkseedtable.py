#!/usr/bin/env python3
"""seeded/TABLE.md from seeded/*/meta.json and selftest/mutants/RESULTS.json."""
import glob, json, os
V = os.path.dirname(os.path.dirname(os.path.abspath(__file__)))
rows = ["| change | property | base | suite passes with it | demo 1/0 | caught by (quick) | first signatures | needs |", "|---|---|---|---|---|---|---|---|"]
for m in sorted(glob.glob(os.path.join(V, "seeded", "*", "meta.json"))):
    d = json.load(open(m))
    name = os.path.basename(os.path.dirname(m))
    sigs = [s for c in d.get("checks", {}).values() for s in c.get("signatures", [])][:2]
    rows.append(f"| seeded/{name} | {d['property']} | {d.get('base_commit', '')} | {d.get('suite_passes')} | {d.get('demo_discriminates')} | {', '.join(d.get('caught_by') or []) or 'MISSED'} | {'; '.join(sigs)} | {d.get('needs_to_manifest', '')[:160]} |")
res = os.path.join(V, "selftest", "mutants", "RESULTS.json")
if os.path.exists(res):
    for name, r in sorted(json.load(open(res)).items()):
        if name.startswith("seeded/"):
            continue
        rows.append(f"| selftest/mutants/{name}.diff | {', '.join(r['property'])} | HEAD | (own mutant) | - | {', '.join(r['caught_by']) or 'MISSED'} | {'; '.join(r['signatures'][:2])} | |")
open(os.path.join(V, "seeded", "TABLE.md"), "w").write("# Which check catches which change\n\n" + "\n".join(rows) + "\n")
print(len(rows) - 2, "rows")
