"""./check selftest-determinism [--cases N] : every case seed must give the same run
fingerprint when executed twice - by different executor processes, with 4 and with 16
executors, with the driver itself under two PYTHONHASHSEED values in fresh interpreters.
Exit 0 = identical, 2 = NONDETERMINISM (never 1: this is not a property violation)."""
import json
import os
import subprocess
import sys
import tempfile

HERE = os.path.dirname(os.path.dirname(os.path.abspath(__file__)))
PROPS = ["C14", "C17", "C19", "C01", "C16", "C15", "C09", "C10", "C11"]


def main(seed, args):
    n = args.cases or 300
    props = [p for p in PROPS if os.path.exists(os.path.join(HERE, "checks", p.lower() + ".py"))]
    only = os.environ.get("RSIM_SELFTEST_PROPS")
    if only:
        props = [p for p in props if p in only.split(",")]
    bad = 0
    for prop in props:
        outs = []
        for hs, ex in (("0", "16"), ("5", "4")):
            fd, path = tempfile.mkstemp(suffix=".json", dir="/var/tmp")
            os.close(fd)
            env = dict(os.environ, PYTHONHASHSEED=hs, RSIM_EXECUTORS=ex, RSIM_NO_EVIDENCE="1", RSIM_NO_REPLAY="1",
                       PYTHONPATH=HERE, PYTHONDONTWRITEBYTECODE="1", VERIF_SEED=str(seed))
            r = subprocess.run(["/venv/bin/python", os.path.join(HERE, "rsim", "cli.py"), prop, "--cases", str(n),
                                "--budget", "3000", "--fingerprints", path, "--tier", "quick"],
                               env=env, stdout=subprocess.PIPE, stderr=subprocess.PIPE, text=True, timeout=3600)
            try:
                outs.append(json.load(open(path)))
            except Exception:
                outs.append({})
                print(f"[{prop}] run failed rc={r.returncode}: {r.stderr[-800:]}")
            if r.returncode == 2:
                print(f"[{prop}] harness trouble (rc=2) in the run with hashseed {hs}/{ex} executors: {r.stderr[-1200:]}")
            os.unlink(path)
        a, b = outs
        only_one = sorted(set(a) ^ set(b))
        if only_one:
            print(f"[{prop}] {len(only_one)} seeds were executed in one run only (harness trouble there, see its stderr): {only_one[:5]}")
        diff = sorted(k for k in set(a) & set(b) if a.get(k) != b.get(k))
        if only_one:
            bad += 1
        print(f"[{prop}] seeds compared={len(set(a) & set(b))} differing={len(diff)} (driver hashseed 0/16 executors vs 5/4 executors)")
        if diff or not a:
            bad += 1
            print(f"NONDETERMINISM property={prop} seeds={diff[:10]}")
    return 2 if bad else 0
