#!/bin/sh
# Offline setup: verify that reuse resolves to /repo/src in /venv and that the scratch area exists.
set -e
cd "$(dirname "$0")"
/venv/bin/python - <<'PY'
import reuse, os, sys
p = os.path.realpath(reuse.__file__)
assert p.startswith("/repo/src/"), f"reuse is imported from {p}, not /repo/src"
import click, jinja2, tomlkit, debian  # noqa
print("setup ok:", p)
PY
mkdir -p evidence replays
