"""C14 - results do not depend on scheduling, enumeration order, hash seed, cwd or root spelling.

One world, executed under several environments; all executions must give the same
normalised lint / SPDX result and the same exit status.
"""
import json
import os
import posixpath

from rsim import gen as G
from rsim.prf import Rng, digest, prf

PROP = "C14"
LEVEL = "exploration"
MIN_VARIANTS = 2
ALIGNED_STEPS = True
ROOT_IS_ENV = True  # cwd and --root are part of the environment here, the shrinker may reset them
TIERS = {
    "quick": {"cases": 170, "budget_s": 150, "batch": 32, "variants": 5},
    "thorough": {"cases": 4000, "budget_s": 900, "batch": 48, "variants": 8},
}
RULE = (
    "one case = one seeded project tree (3-30 files: any comment style, stacked comment terminators, unparseable "
    "expressions, binaries, .license siblings, nested REUSE.toml or dep5, LICENSES/ variety, optional Git + .gitignore) "
    "executed under V environments (serial or SimForkPool with seeded worker count / assignment / release order / chunk "
    "size, seeded readdir permutation, PYTHONHASHSEED 0..7 via separate interpreters, cwd in {root, subdir, parent, "
    "unrelated}, root spelled absolute / relative / dotted / with a detour / trailing slash / omitted, short raw reads, odd "
    "buffer sizes); a case is non-trivial when at least two environments that differ in schedule, readdir key, hash seed, "
    "cwd or root spelling were compared; distinct = distinct world digests"
)
EXPECTED_PROBES = ["report.worker_dep5_reparse", "project.override_not_read", "project.binary_not_read",
                   "extract.unparseable_expression", "covered.vcs_ignored", "toml.closest_cleanup"]

COMMANDS = [
    ["lint", "--json"],
    ["spdx"],
    ["lint", "--lines"],
    ["spdx", "--add-license-concluded", "--creator-person", "Jane"],
    ["lint"],
    ["lint", "--quiet"],
]
DIRS = ["src", "src/core", "docs", "a b", "lib/x/y", "tests"]
SPECIAL_ENDS = ['">', "'/>", '" />', "] ::", "]::"]


# ---- world generation -----------------------------------------------------------------
def _tag_line(rng, lic, holder, year):
    k = rng.randrange(3)
    if k == 0:
        return f"SPDX-License-Identifier: {lic}"
    if k == 1:
        return rng.pick([
            f"SPDX-FileCopyrightText: {year} {holder}", f"Copyright (C) {year} {holder}",
            f"© {holder}", f"SPDX-FileCopyrightText: © {year} {holder}", f"Copyright {year}, {holder}",
        ])
    return f"SPDX-FileContributor: {holder}"


def _expr(rng):
    lics = G.VALID + G.DEPRECATED + G.LICENSEREF + G.UNKNOWN
    k = rng.randrange(10)
    if k < 5:
        return rng.pick(lics)
    if k == 5:
        return f"{rng.pick(G.VALID)} OR {rng.pick(G.VALID)}"
    if k == 6:
        return f"{rng.pick(G.VALID)} AND ({rng.pick(lics)} OR {rng.pick(G.VALID)})"
    if k == 7:
        return f"GPL-3.0-or-later WITH {rng.pick(G.EXCEPTIONS)}"
    if k == 8:
        return rng.pick(["Apache-2.0+", "EUPL-1.2+", "GPL-2.0+"])
    return rng.pick(["MIT AND AND", "MIT OR", "(MIT", "GPL-3.0-or-later WITH"])


def gen_content(rng, style):
    holder, year = rng.pick(G.HOLDERS), rng.pick(["2019", "2020", "2017-2021", "2023"])
    lic = _expr(rng)
    body = G.body_for(style)
    kind = rng.wpick([(5, "canonical"), (3, "stacked"), (2, "inline"), (1, "none"), (1, "c-only"), (1, "l-only"),
                      (1, "ignore"), (1, "snippet"), (1, "frame"), (1, "xmlattr"), (1, "nonutf8"), (1, "crlf")])
    if kind == "canonical":
        multi = G.can_multi(style) and (not G.can_single(style) or rng.chance(0.3))
        text = G.header_text([f"SPDX-FileCopyrightText: {year} {holder}"], [lic], [holder] if rng.chance(0.2) else [])
        return G.comment(style, text, multi) + "\n\n" + body
    if kind == "stacked":
        lines = []
        for _ in range(rng.randint(1, 3)):
            terms = [rng.pick(G.TERMINATORS + SPECIAL_ENDS) for _ in range(rng.randint(0, 3))]
            sep = rng.pick(["", " ", "  "])
            opener = rng.pick(["<!-- ", "/* ", "<!-- /* ", "{# ", "(* ", "", "# "])
            lines.append(opener + _tag_line(rng, lic, holder, year) + sep + sep.join(terms))
        return "\n".join(lines) + "\n" + body
    if kind == "inline":
        st = style if G.can_multi(style) else "c"
        start, _, end = G.STYLES[st][2]
        return (f"{start} SPDX-License-Identifier: {lic} {end}\n{start} Copyright {year} {holder} {end}\n" + body)
    if kind == "none":
        return body
    if kind == "c-only":
        return G.comment(style, f"SPDX-FileCopyrightText: {year} {holder}") + "\n" + body
    if kind == "l-only":
        return G.comment(style, f"SPDX-License-Identifier: {lic}") + "\n" + body
    if kind == "ignore":
        return (G.comment(style, f"SPDX-FileCopyrightText: {holder}\nSPDX-License-Identifier: MIT") + "\n"
                + "x = 'REUSE-IgnoreStart'\ny = 'SPDX-License-Identifier: " + lic + "'\nz = 'REUSE-IgnoreEnd'\n" + body)
    if kind == "snippet":
        filler = ("filler line\n" * rng.pick([10, 400]))
        return (G.comment(style, f"SPDX-FileCopyrightText: {holder}\nSPDX-License-Identifier: MIT") + "\n" + filler
                + "SPDX-SnippetBegin\nSPDX-SnippetCopyrightText: 2022 Snippet Author\nSPDX-License-Identifier: "
                + lic + "\ncode\nSPDX-SnippetEnd\n")
    if kind == "frame":
        return f"/***********************************\\\n|* SPDX-License-Identifier: {lic} *|\n|* Copyright {year} {holder} *|\n\\***********************************/\n" + body
    if kind == "xmlattr":
        q = rng.pick(['"', "'"])
        return f"<tag value={q}SPDX-License-Identifier: {lic}{q}/>\n<c v={q}Copyright {year} {holder}{q} >\n" + body
    if kind == "nonutf8":
        return G.comment(style, f"SPDX-FileCopyrightText: {year} {holder}\nSPDX-License-Identifier: {lic}") + "\n\udcff\udcfe caf\udce9\n" + body
    if kind == "crlf":
        return (G.comment(style, f"SPDX-FileCopyrightText: {year} {holder}\nSPDX-License-Identifier: {lic}") + "\n" + body).replace("\n", "\r\n")
    raise AssertionError(kind)


def gen_world(rng, tier="quick"):
    dirs = [""] + [d for d in DIRS if rng.chance(0.45)]
    if "src/core" in dirs and "src" not in dirs:
        dirs.append("src")
    files = []
    n = rng.randint(3, 14 if tier == "quick" else 30)
    used_names = set()
    for i in range(n):
        d = rng.pick(dirs)
        style = rng.pick(G.STYLE_NAMES)
        k = rng.randrange(12)
        if k == 0:
            name, content = f"img{i}.png", G.BINARY
        elif k == 1:
            name, content = f"data{i}" + rng.pick(G.UNKNOWN_EXT), gen_content(rng, "python")
        elif k == 2:
            name, content = rng.pick(["Makefile", "Dockerfile", "CMakeLists.txt", "setup.cfg"]), gen_content(rng, "python")
        else:
            name, content = f"f{i}{G.STYLES[style][7]}", gen_content(rng, style)
        path = posixpath.join(d, name) if d else name
        if path in used_names:
            continue
        used_names.add(path)
        files.append({"path": path, "content": content})
        if rng.chance(0.15):
            lic, holder = _expr(rng), rng.pick(G.HOLDERS)
            files.append({"path": path + ".license", "content": rng.pick([
                f"SPDX-FileCopyrightText: 2021 {holder}\nSPDX-License-Identifier: {lic}\n",
                f"SPDX-License-Identifier: {lic}\n", "", f"Copyright {holder}\n"])})
    # excluded-name files, empty files
    if rng.chance(0.3):
        files.append({"path": "LICENSE", "content": "licence text\n"})
    if rng.chance(0.2):
        files.append({"path": posixpath.join(rng.pick(dirs), "COPYING.md").lstrip("/"), "content": "copying\n"})
    if rng.chance(0.2):
        files.append({"path": posixpath.join(rng.pick(dirs), "empty.py").lstrip("/"), "content": ""})
    if rng.chance(0.15):
        files.append({"path": "bom.spdx", "content": "SPDXVersion: SPDX-2.1\n"})

    # LICENSES/
    lic_names = set()
    for lic in G.VALID + G.DEPRECATED + G.EXCEPTIONS + G.LICENSEREF:
        if rng.chance(0.45):
            sub = "sub/" if rng.chance(0.1) else ""
            ext = rng.pick([".txt", ".txt", ".txt", ".md", ""]) if not lic.startswith("LicenseRef") else ".txt"
            lic_names.add(lic)
            files.append({"path": f"LICENSES/{sub}{lic}{ext}", "content": f"text of {lic}\n"})
            if rng.chance(0.1):
                files.append({"path": f"LICENSES/{sub}{lic}{ext}.license", "content": "SPDX-License-Identifier: CC0-1.0\n"})
    if rng.chance(0.07) and lic_names:
        # two files that resolve to one identifier (the tool refuses such a tree; it must do so in every environment)
        lic = rng.pick(sorted(lic_names))
        have = {f["path"] for f in files}
        for ext in (".md", "", ".txt"):
            if f"LICENSES/{lic}{ext}" not in have and f"LICENSES/sub/{lic}{ext}" not in have:
                files.append({"path": f"LICENSES/{lic}{ext}", "content": f"another text of {lic}\n"})
                break
    if rng.chance(0.15):
        files.append({"path": "LICENSES/Foo-1.0.txt", "content": "unknown licence\n"})
    if rng.chance(0.1):
        files.append({"path": "LICENSES/README.rst", "content": "not a licence\n"})

    # global licensing
    g = rng.randrange(10)
    if g < 5:
        toml_dirs = [""] + [d for d in ("src", "src/core", "docs") if d in dirs and rng.chance(0.5)]
        if rng.chance(0.2):
            toml_dirs = toml_dirs[1:] or [""]
        for td in toml_dirs:
            tables = []
            for _ in range(rng.randint(1, 3)):
                t = {"path": rng.pick(["**", "*.py", "**/*.c", "src/**", "core/**", "docs/*", "**/f1*", "a b/**", "*",
                                       ["**/*.html", "**/*.jl"], "f2.py", "**/*.png"]),
                     "precedence": rng.pick(["closest", "aggregate", "override", "closest"])}
                if rng.chance(0.15):
                    t.pop("precedence")
                if rng.chance(0.8):
                    t["SPDX-FileCopyrightText"] = rng.pick([f"2022 {rng.pick(G.HOLDERS)}", [f"2001 {rng.pick(G.HOLDERS)}", "Copyright Someone Else"]])
                if rng.chance(0.8):
                    t["SPDX-License-Identifier"] = rng.pick(G.VALID + G.LICENSEREF + ["MIT OR 0BSD", ["MIT", "CC0-1.0"]])
                tables.append(t)
            files.append({"path": posixpath.join(td, "REUSE.toml") if td else "REUSE.toml", "content": G.reuse_toml(tables)})
        if rng.chance(0.04):
            files.append({"path": ".reuse/dep5", "content": G.dep5([{"files": "*", "copyright": "2020 X", "license": "MIT"}])})
    elif g < 8:
        paras = []
        for _ in range(rng.randint(1, 3)):
            paras.append({"files": rng.pick(["*", "src/*", "docs/*", "*.py", ["src/core/*", "tests/*"], "a b/*", "f?.py"]),
                          "copyright": rng.pick([f"2020 {rng.pick(G.HOLDERS)}", [f"2019 {rng.pick(G.HOLDERS)}", "2021 Another One"]]),
                          "license": rng.pick(G.VALID + ["MIT or 0BSD", "LicenseRef-Custom"])})
        files.append({"path": ".reuse/dep5", "content": G.dep5(paras)})

    world = {"files": files}
    if rng.chance(0.5):
        ign = rng.subset(["*.log", "build/", "docs/ignored.txt", "*.png", "tests/"], 0.5)
        if ign:
            files.append({"path": ".gitignore", "content": "\n".join(ign) + "\n"})
            files.append({"path": "debug.log", "content": "log\n"})
            files.append({"path": "build/out.py", "content": "x = 1\n"})
        untracked = rng.subset([f["path"] for f in files if not f["path"].startswith("LICENSES/")], 0.1)
        world["git"] = {"untracked": sorted(untracked), "commit": True}
        if rng.chance(0.35):
            # a submodule (as far as reuse can tell: .gitmodules names the path) whose files carry no information
            files.append({"path": ".gitmodules", "content": '[submodule "lib"]\n\tpath = vendor/lib\n\turl = https://example.org/lib.git\n'})
            files.append({"path": "vendor/lib/code.c", "content": "int unlicensed;\n"})
            files.append({"path": "vendor/lib/sub/more.py", "content": "x = 1\n"})
    if rng.chance(0.1):
        world["symlinks"] = [{"path": "link.py", "target": files[0]["path"]}]
    real = {""}
    for f in files:
        d = posixpath.dirname(f["path"])
        while d:
            real.add(d)
            d = posixpath.dirname(d)
    dirs = [d for d in dirs if d in real and not d.startswith((".", "LICENSES", "build"))]
    return world, dirs


def _root_spellings(cwd, dirs, git, rn="p"):
    return [o if o is None else o.replace("\0", rn) for o in _root_spellings0(cwd, dirs, git)]


def _root_spellings0(cwd, dirs, git):
    real_dirs = [d for d in dirs if d]
    if cwd == ".":
        opts = [None, ".", "./", "$ROOT", "$ROOT/", "../\0"] + [f"../s/link{i}/" + "/".join([".."] * (d.count("/") + 1)) for i, d in enumerate(real_dirs[:2])] + [f"{d}/" + "/".join([".."] * (d.count("/") + 1)) for d in real_dirs[:2]]
    elif cwd == "..":
        opts = ["\0", "./\0", "\0/", "$ROOT"] + [f"\0/{d}/" + "/".join([".."] * (d.count("/") + 1)) for d in real_dirs[:1]]
    elif cwd == "../s":
        opts = ["../\0", "$ROOT", "../s/../\0"] + [f"link{i}/" + "/".join([".."] * (d.count("/") + 1)) for i, d in enumerate(real_dirs[:2])]
    else:
        up = "/".join([".."] * (cwd.count("/") + 1))
        opts = [up, up + "/", "$ROOT", f"{up}/{cwd}/{up}"] + ([None] if git else [])
    return opts


def gen_case(seed, tier, index=0):
    rng = Rng(seed, "c14")
    if rng.chance(0.25):
        # a project that is compliant by construction (C01's generator, usually without defects): the 'exit 0' side
        from checks import c01
        world = c01.gen_world(rng)[0]
        real = sorted({posixpath.dirname(f["path"]) for f in world["files"]} - {""})
        dirs = [""] + [d for d in real if not d.startswith((".", "LICENSES", "build"))]
    else:
        world, dirs = gen_world(rng, tier)
    git = bool(world.get("git"))
    # symlinks outside the project that point at its directories: 'link/..' is one more way to spell the root
    world["sentinel_links"] = [{"path": f"link{i}", "target": d} for i, d in enumerate([d for d in dirs if d][:2])]
    # the name of the root directory itself is part of the environment, not of the project's contents
    rn = rng.wpick([(12, "p"), (2, "subprojects"), (1, "LICENSES"), (1, ".reuse"), (1, "a b"), (1, "x.license"), (1, "LICENSE"),
                    (2, "p[1]"), (1, "st*r"), (1, "q?")])
    if rn != "p":
        world["root_name"] = rn
    ncmd = rng.randint(2, 3)
    cmds = [COMMANDS[0]] + rng.sample(COMMANDS[1:], ncmd - 1)
    lf_files = []
    if rng.chance(0.35):
        cand = [f["path"] for f in world["files"] if not f["path"].startswith((".reuse/", ".git"))]
        lf_files = rng.sample(cand, min(len(cand), rng.randint(1, 4)))
        cmds.append(["lint-file", "--lines"])
    gflags = []
    if rng.chance(0.15):
        # a Meson subproject that brings its own REUSE.toml, and the option that makes it part of the project - the same in
        # every environment, workers included
        have = {f["path"] for f in world["files"]}
        for nm, content in (("subprojects/libfoo/REUSE.toml", 'version = 1\n[[annotations]]\npath = "**"\nprecedence = "closest"\n'
                                                               'SPDX-FileCopyrightText = "2016 Foo Authors"\nSPDX-License-Identifier = "0BSD"\n'),
                            ("subprojects/libfoo/foo.c", "int foo;\n"), ("subprojects/libfoo/inc/foo.h", "int foo;\n"),
                            ("subprojects/libbar/bar.c", "int bar;\n")):
            if nm not in have:
                world["files"].append({"path": nm, "content": content})
        gflags = ["--include-meson-subprojects"]
    elif world.get("git") and any(f["path"] == ".gitmodules" for f in world["files"]) and rng.chance(0.5):
        gflags = ["--include-submodules"]
    nvar = TIERS[tier]["variants"]
    hs = rng.sample(range(8), min(8, max(3, nvar)))
    variants = []
    for v in range(nvar):
        base = v == 0
        cwd = "." if base else rng.wpick([(4, "."), (2, ".."), (1, "../s")] + [(2, d) for d in dirs if d and d != "LICENSES"][:3])
        spelling = None if base else rng.pick(_root_spellings(cwd, dirs, git, rn))
        serial = base or rng.chance(0.3)
        env = {"cwd": cwd}
        if not base:
            env["readdir_key"] = rng.randrange(1, 1 << 30) if rng.chance(0.8) else 0
            if rng.chance(0.3):
                env["short_io"] = rng.pick([1, 7, 100, 1000])
            if rng.chance(0.3):
                env["buffer_size"] = rng.pick([1, 16, 128, 4096, 5000])
            env["clock"] = rng.pick(["1999-12-31T23:59:59", "2024-02-29T00:00:00", "2038-01-19T03:14:08"])
        dbg = (not base) and rng.chance(0.15)
        pool = None
        if not serial:
            pool = {"n": rng.pick([1, 2, 2, 3, 4, 5, 8, 16]), "key": rng.randrange(1 << 30)}
            if rng.chance(0.3):
                pool["chunk"] = rng.randint(1, 6)
        steps = []
        for c in cmds:
            argv = (["--debug"] if dbg else []) + gflags + (["--no-multiprocessing"] if serial else []) + (["--root", spelling] if spelling is not None else []) + list(c)
            if c[0] == "lint-file":
                # the same files, spelled relative to this variant's cwd (or absolutely)
                cwd_abs = posixpath.normpath(posixpath.join("/B/" + rn, cwd))
                for k, f in enumerate(lf_files):
                    if (v + k) % 3 == 0 and not base:
                        argv.append("$ROOT/" + f)
                    else:
                        argv.append(posixpath.relpath(posixpath.join("/B/" + rn, f), cwd_abs))
            st = dict(env, argv=argv)
            if pool:
                st["pool"] = pool
            steps.append(st)
        variants.append({"hashseed": hs[v % len(hs)], "steps": steps, "slot": v})
    if tier == "thorough" and index % 8 == 0:
        # fidelity of the stub: the same commands on the real multiprocessing.Pool (never a source of VIOLATIONs)
        steps = [{"argv": [a for a in st0["argv"] if a != "--no-multiprocessing"], "cwd": ".", "real_pool": True}
                 for st0 in variants[0]["steps"]]
        variants.append({"hashseed": hs[0], "steps": steps, "slot": nvar, "nondeterministic": True})
    return {"prop": PROP, "seed": seed, "world": world, "variants": variants}


# ---- normalisation ------------------------------------------------------------------------
def _canon_path(p, cwd, world_paths, rn="p", spelling=None):
    """The file a reported path denotes, as a root-relative posix path."""
    if not isinstance(p, str):
        return p
    if spelling and not spelling.startswith("$ROOT"):
        # reported paths are <root as spelled>/<relative path>; the spelling may go through a symlink, so it is
        # removed as a prefix, never resolved textually
        sp = str(posixpath.join(*[x for x in spelling.split("/") if x not in ("", ".")] or ["."])) if not spelling.startswith("/") else spelling
        if p == sp:
            return "."
        if sp != "." and p.startswith(sp + "/") and p[len(sp) + 1:] in world_paths:
            return p[len(sp) + 1:]
    p = p.replace("$B/", "/B/")
    cwd_abs = posixpath.normpath(posixpath.join("/B/" + rn, cwd))
    a = posixpath.normpath(posixpath.join(cwd_abs, p))
    rel = posixpath.relpath(a, "/B/" + rn)
    if rel in world_paths or cwd == ".":
        return rel
    r2 = posixpath.normpath(p)
    if not posixpath.isabs(r2) and r2 in world_paths:
        return r2
    return rel


def normalise(cmd, rec, cwd, world_paths, rn="p", spelling=None):
    if rec.get("exc"):
        return {"exception": rec["exc"]["type"]}
    if rec.get("timeout"):
        return {"timeout": True}
    out = {"exit": rec.get("exit")}
    so = rec.get("stdout", "")
    cp = lambda p: _canon_path(p, cwd, world_paths, rn, spelling)  # noqa: E731
    if cmd[:2] == ["lint", "--json"]:
        try:
            d = json.loads(so)
        except ValueError:
            out["unparsed"] = so[:300] if rec.get("exit") != 2 else "usage-error"
            return out
        nc = d.get("non_compliant", {})
        out["files"] = sorted(
            json.dumps({"path": f["path"],
                        "copyrights": sorted(json.dumps(c, sort_keys=True) for c in f["copyrights"]),
                        "spdx": sorted(json.dumps(c, sort_keys=True) for c in f["spdx_expressions"])}, sort_keys=True)
            for f in d.get("files", []))
        for k in ("missing_licenses", "bad_licenses"):
            out[k] = {lic: sorted(cp(p) for p in ps) for lic, ps in sorted(nc.get(k, {}).items())}
        out["licenses_without_extension"] = {k: cp(v) for k, v in sorted(nc.get("licenses_without_extension", {}).items())}
        for k in ("unused_licenses", "deprecated_licenses"):
            out[k] = sorted(nc.get(k, []))
        for k in ("missing_copyright_info", "missing_licensing_info", "read_errors"):
            out[k] = sorted(cp(p) for p in nc.get(k, []))
        s = dict(d.get("summary", {}))
        s["used_licenses"] = sorted(s.get("used_licenses", []))
        out["summary"] = s
        out["recommendations"] = d.get("recommendations")
        out["versions"] = [d.get("lint_version"), d.get("reuse_spec_version")]
    elif cmd[0] in ("lint", "lint-file") and "--lines" in cmd:
        lines = []
        for line in so.splitlines():
            if ": " in line:
                p, msg = line.rsplit(": ", 1)
                lines.append(f"{cp(p)}: {msg}")
            else:
                lines.append(line)
        out["lines"] = sorted(lines)
    elif cmd == ["lint"]:
        # plain format: sections of '* item' lines and a summary whose comma lists follow set order
        lines = []
        for line in so.splitlines():
            if line.startswith("* ") and ": " in line and "," in line.split(": ", 1)[1]:
                k, v = line.split(": ", 1)
                line = k + ": " + ", ".join(sorted(x.strip() for x in v.split(",")))
            elif line.startswith("* ") and ": " not in line:
                c = cp(line[2:])  # a path when it denotes a file of the world, else a licence identifier
                line = "* " + (c if c in world_paths else line[2:])
            lines.append(line)
        out["plain"] = sorted(lines)
    elif cmd[0] == "spdx":
        sections = so.split("\n\n")
        head = [l for l in sections[0].splitlines() if not l.startswith(("DocumentNamespace:", "Created:"))]
        out["head"] = [l for l in head if not l.startswith("Relationship:")]
        out["relationships"] = sorted(l for l in head if l.startswith("Relationship:"))
        out["sections"] = sorted(sections[1:])
    return out


def first_difference(a, b, path=""):
    if type(a) != type(b):
        return path or "type"
    if isinstance(a, dict):
        for k in sorted(set(a) | set(b)):
            if k not in a or k not in b:
                return f"{path}.{k}" if path else k
            d = first_difference(a[k], b[k], f"{path}.{k}" if path else k)
            if d:
                return d
        return None
    if a != b:
        return path or "value"
    return None


def oracle(case, results):
    world_paths = ({f["path"] for f in case["world"].get("files", [])} | {l["path"] for l in case["world"].get("symlinks", [])}
                   | {l["path"] for l in case["world"].get("hardlinks", [])})
    vs = []
    base_var, base_res = case["variants"][0], results[0]
    nsteps = min(len(v["steps"]) for v in case["variants"])
    for si in range(nsteps):
        cmd0 = _cmd_of(base_var["steps"][si]["argv"])
        rn = case["world"].get("root_name", "p")
        n0 = normalise(cmd0, base_res["records"][si], base_var["steps"][si].get("cwd", "."), world_paths, rn, _spelling(base_var["steps"][si]["argv"]))
        for vi in range(1, len(case["variants"])):
            var = case["variants"][vi]
            st = var["steps"][si]
            cmd = _cmd_of(st["argv"])
            if cmd != cmd0:
                continue
            n1 = normalise(cmd, results[vi]["records"][si], st.get("cwd", "."), world_paths, rn, _spelling(st["argv"]))
            d = first_difference(n0, n1)
            if d:
                field = d.split(".")[0]
                axes = _axes(base_var, var, si)
                fidelity = bool(st.get("real_pool"))
                sig = f"C14/differs/{' '.join(cmd[:2])}/{field}" + ("/REAL-POOL-FIDELITY" if fidelity else "")
                if rn != "p":
                    sig += f"/root-directory-named-{rn}"
                vs.append({"sig": sig, "detail": f"variant 0 vs {vi} differ at {d}; differing axes: {axes}\n"
                           f"  v0: {json.dumps(_dig(n0, d))[:500]}\n  v{vi}: {json.dumps(_dig(n1, d))[:500]}"})
                break
    return vs


def _dig(n, path):
    cur = n
    for k in path.split("."):
        if isinstance(cur, dict) and k in cur:
            cur = cur[k]
        else:
            break
    return cur


def _spelling(argv):
    return argv[argv.index("--root") + 1] if "--root" in argv else None


def _cmd_of(argv):
    argv = list(argv)
    if "lint-file" in argv:
        argv = argv[: argv.index("lint-file") + 2]  # the file arguments are spelled per environment
    out = []
    i = 0
    while i < len(argv):
        if argv[i] in ("--no-multiprocessing", "--debug", "--include-meson-subprojects", "--include-submodules"):
            i += 1
        elif argv[i] == "--root":
            i += 2
        else:
            out.append(argv[i])
            i += 1
    return out


def _axes(v0, v1, si):
    a, b = v0["steps"][si], v1["steps"][si]
    axes = []
    if v0.get("hashseed", 0) != v1.get("hashseed", 0):
        axes.append(f"hashseed {v0.get('hashseed', 0)}->{v1.get('hashseed', 0)}")
    for k in ("cwd", "readdir_key", "pool", "short_io", "buffer_size", "clock"):
        if a.get(k) != b.get(k):
            axes.append(f"{k} {a.get(k)}->{b.get(k)}")
    ra = a["argv"][a["argv"].index("--root") + 1] if "--root" in a["argv"] else None
    rb = b["argv"][b["argv"].index("--root") + 1] if "--root" in b["argv"] else None
    if ra != rb:
        axes.append(f"root {ra}->{rb}")
    if ("--no-multiprocessing" in a["argv"]) != ("--no-multiprocessing" in b["argv"]):
        axes.append("serial<->pool")
    return axes


def account(case, results, cov):
    cov.nontrivial.add(digest(case["world"]))
    if any(v.get("nondeterministic") for v in case["variants"]):
        cov.bump("real_pool_fidelity_worlds_compared")
    for var in case["variants"]:
        st = var["steps"][0]
        root = st["argv"][st["argv"].index("--root") + 1] if "--root" in st["argv"] else "<omitted>"
        kind = ("abs" if root.startswith("$ROOT") else "omitted" if root == "<omitted>" else
                "detour" if ".." in root and "/" in root.strip("./") else "relative")
        cov.bump("root_spelling." + kind)
        cov.bump("mode." + ("serial" if "--no-multiprocessing" in st["argv"] else f"pool{st.get('pool', {}).get('n')}"))
    for st, rec in zip(case["variants"][0]["steps"], results[0]["records"]):
        c = _cmd_of(st["argv"])
        cov.bump(f"baseline_exit.{' '.join(c[:2])}.{rec.get('exit')}")
    if len(cov.samples) < 3:
        cov.samples.append({"seed": case["seed"], "files": [f["path"] for f in case["world"]["files"]][:12],
                            "git": bool(case["world"].get("git")),
                            "variants": [{"hashseed": v["hashseed"], "argv": v["steps"][0]["argv"], "cwd": v["steps"][0].get("cwd"),
                                          "pool": v["steps"][0].get("pool"), "readdir_key": v["steps"][0].get("readdir_key")}
                                         for v in case["variants"]]})
