"""C17 - convert-dep5: .reuse/dep5 disappears only after REUSE.toml exists; lint unchanged.

Ordering facet: every crash point and every write-error point of the fault-free execution is
executed (two-phase case: the fault-free run is observed, then one variant per mutating
event is derived from its gate trace). Post-condition: lint --json before == after.
"""
import json
import posixpath
import re

from rsim import gen as G
from rsim.prf import Rng, digest

PROP = "C17"
LEVEL = "fault_enumeration"
MIN_VARIANTS = 1
TIERS = {
    "quick": {"cases": 150, "budget_s": 150, "batch": 32},
    "thorough": {"cases": 1500, "budget_s": 900, "batch": 48},
}
RULE = (
    "one case = one seeded project with a valid .reuse/dep5 (header, 1-4 Files paragraphs, several patterns, multi-line "
    "copyright, comments; patterns from {*, dir/*, *.ext, literal, ?, \\*} against matching and near-miss file names). "
    "Phase 1 runs lint --json, convert-dep5, lint --json fault-free under a seeded buffer size (1 raw write .. dozens). "
    "Phase 2 re-executes convert-dep5 on a fresh copy of the same world once per mutating gate event of phase 1 "
    "(crash before the event; torn write at a seeded offset) and once per write-error point (ENOSPC at open / inside a "
    "write, EIO at close, EACCES at unlink): the boundary enumeration is complete for that execution. Non-trivial = a "
    "crash or error actually fired; distinct = distinct (world digest, event index, fault kind)"
)
EXPECTED_PROBES = ["convert.unlink", "convert.no_dep5"]
ASSUMPTIONS = ("the set of mutating events is read from the gate trace of the fault-free run; a mutation that bypasses "
               "io.open/os.* (none exists today) would not be enumerated",)

PATTERN_POOL = ["*", "src/*", "docs/*", "*.py", "src/*.c", "src/core/*", "f?.py", "src/a?c.c", "data/*.json",
                "README.md", "src/main.c", "sta\\*r.txt", "docs/*/deep.md", "*.md", "*/deep.md", "data/\\\\*", "data/\\\\raw/*",
                "sta\\*", "*/x.json", "q\\?.txt"]
FILE_POOL = ["f1.py", "f22.py", "fx.py", "src/main.c", "src/abc.c", "src/a/c.c", "src/core/x.py", "docs/a.md",
             "docs/sub/deep.md", "data/x.json", "README.md", "sta*r.txt", "staXr.txt", "other.txt", "src/abbc.c",
             "notes.md", "src/core/deep/y.c", "docs/deep.md", "deep.md", "docs/notdeep.md", "data/\\raw/file.bin",
             "data/\\raw/sub/file2.bin", "data/\\x.bin", "sta*/inner.txt", "x.json", "q?.txt", "qa.txt"]


PATTERN_GROUPS = [("po/*.po", "po/*.pot"), ("*.h", "*.h.in"), ("docs/*.md", "docs/*"), ("src/*.c", "src/*.c.orig", "src/*"),
                  ("*.po", "*.pot", "*.pot.bak")]
GROUP_FILES = ["po/demo.po", "po/demo.pot", "src/config.h", "src/config.h.in", "src/main.c.orig", "po/old.pot.bak"]


def gen_case(seed, tier, index=0):
    rng = Rng(seed, "c17")
    files = []
    names = rng.sample(FILE_POOL, rng.randint(3, 9)) + rng.sample(GROUP_FILES, rng.randint(0, 4))
    for n in names:
        k = rng.randrange(4)
        if k == 0:
            content = f"# SPDX-FileCopyrightText: 2020 {rng.pick(G.HOLDERS)}\n# SPDX-License-Identifier: {rng.pick(G.VALID)}\nx\n"
        elif k == 1:
            content = f"# SPDX-License-Identifier: {rng.pick(G.VALID)}\nx\n"
        else:
            content = "plain content\n"
        files.append({"path": n, "content": content})
    paras = []
    for _ in range(rng.randint(1, 4)):
        pats = rng.sample(PATTERN_POOL, rng.randint(1, 3))
        if rng.chance(0.25):
            # several patterns in one paragraph where one matches a proper prefix of what another matches
            pats = list(rng.pick(PATTERN_GROUPS))
        cr = [f"{rng.pick(['2019', '2020-2022', ''])} {rng.pick(G.HOLDERS)}".strip() for _ in range(rng.randint(1, 3))]
        if rng.chance(0.08):
            # characters that str.splitlines() takes for line ends and deb822 does not (form feed, NEL, U+2028, ...)
            sep = rng.pick(["\x0c", "\x85", "\u2028", "\x0b", "\x1c", "\u2029"])
            cr[0] = f"2020 Jane Doe{sep}2021 John Doe"
        p = {"files": pats if len(pats) > 1 else pats[0], "copyright": cr if len(cr) > 1 else cr[0],
             "license": rng.pick(G.VALID + ["MIT or 0BSD", "LicenseRef-Custom", "GPL-3.0-or-later WITH Classpath-exception-2.0"])}
        if rng.chance(0.3):
            p["comment"] = rng.pick(["a comment", "multi\n line comment"])
        if rng.chance(0.06):
            p["license"] = p["license"] + "\n The full licence text\n .\n second paragraph"
        paras.append(p)
    if rng.chance(0.15):
        # two paragraphs that say exactly the same thing, with an overlapping one in between: the later, narrower
        # paragraph must keep winning over the one in between
        same = {"copyright": "2020 Jane Doe", "license": "MIT"}
        paras = [dict(same, files="*"), {"files": "src/*", "copyright": "2021 Example Corp", "license": "0BSD"},
                 dict(same, files=rng.pick(["src/core/*", "src/main.c", "src/a/*"]))] + paras[:1]
        for extra in ("src/core/x.py", "src/main.c", "src/a/c.c", "src/abc.c"):
            if extra not in [f["path"] for f in files]:
                files.append({"path": extra, "content": "plain content\n"})
                names.append(extra)
    if rng.chance(0.2) and names:
        # Debian style: the paragraph's copyright line is literally the notice one of its files carries itself
        plain = [n for n in names if not set(n) & set("\\*?")]  # a file name with these characters is not its own pattern
        tgt = rng.sample(plain, min(len(plain), 3)) or ["README.md"]
        line = "Copyright (C) 2021 Alice Example"
        for f in files:
            if f["path"] == tgt[0]:
                f["content"] = f"# {line}\nx\n"
        paras.append({"files": tgt if len(tgt) > 1 else tgt[0], "copyright": line, "license": "MIT"})
    if rng.chance(0.5) and not any(p["files"] == "*" for p in paras):
        paras.insert(0, {"files": "*", "copyright": "2001 Everyone", "license": "CC0-1.0"})
    for p in paras:
        if rng.chance(0.2):
            p["copyright_nl"] = True  # 'Copyright:' with the value starting on the next line
    symlinks = []
    if rng.chance(0.12):
        # Debian-packaged projects: .reuse/dep5 is a symlink to debian/copyright (which is itself a file of the project)
        files.append({"path": "debian/copyright", "content": G.dep5(paras, header=True)})
        symlinks.append({"path": ".reuse/dep5", "target": "../debian/copyright"})
    else:
        files.append({"path": ".reuse/dep5", "content": G.dep5(paras, header=rng.chance(0.97))})
    for lic in sorted({l for p in paras for l in re.findall(r"[A-Za-z0-9][A-Za-z0-9.+-]+", p["license"].split("\n")[0])
                       if l not in ("or", "WITH", "OR", "AND")} | {"MIT"}):
        if rng.chance(0.8):
            files.append({"path": f"LICENSES/{lic}.txt", "content": f"text {lic}\n"})
    world = {"files": files}
    if symlinks:
        world["symlinks"] = symlinks
    if rng.chance(0.25):
        world["git"] = {"commit": True}
    env = {}
    if rng.chance(0.7):
        env["buffer_size"] = rng.pick([16, 40, 100, 512])
    if rng.chance(0.5):
        env["short_io"] = rng.pick([5, 50, 200])
    serial = rng.chance(0.6)
    pool = None if serial else {"n": rng.pick([1, 2, 3, 4]), "key": rng.randrange(1 << 30)}
    root_opt = []
    subdirs = sorted({f["path"].split("/")[0] for f in files if "/" in f["path"] and not f["path"].startswith((".", "LICENSES", "sta*"))})
    if subdirs and rng.chance(0.3):
        # run from a subdirectory: with --root .., or relying on Git to find the root
        env["cwd"] = rng.pick(subdirs)
        if not world.get("git") or rng.chance(0.5):
            root_opt = ["--root", ".."]
    if rng.chance(0.12):
        # the user's locale is not UTF-8 (LC_ALL=C without Python's coercion); holders' names are not ASCII
        env["env"] = {"LC_ALL": "C", "LANG": "C", "PYTHONUTF8": "0", "PYTHONCOERCECLOCALE": "0"}
    lint = dict(env, argv=root_opt + (["--no-multiprocessing"] if serial else []) + ["lint", "--json"])
    if pool:
        lint["pool"] = pool
    steps = [dict(lint), dict(env, argv=root_opt + ["convert-dep5"]), dict(lint)]
    if rng.chance(0.15):
        # the 'refuses to run without dep5' clause: a second conversion must be a usage error
        steps.append(dict(env, argv=root_opt + ["convert-dep5"]))
    return {"prop": PROP, "seed": seed, "world": world, "torn_seed": rng.randrange(1 << 30),
            "variants": [{"hashseed": rng.randrange(8), "steps": steps, "kind": "fault-free"}]}


def expand(case, results):
    """One variant per crash point and per write-error point of the fault-free conversion."""
    rec = results[0]["records"][1]
    base = case["variants"][0]["steps"][1]
    hs = case["variants"][0].get("hashseed", 0)
    out = []
    events = rec.get("mut_events") or []
    toml_size = 0
    for label, d in (rec.get("diff") or {}).items():
        if label == "REUSE.toml" and d.get("after"):
            toml_size = d["after"][2]
    for k, (op, label, n) in enumerate(events):
        st = dict(base, crash_at=k)
        out.append({"hashseed": hs, "kind": f"crash-before-{op}", "event": k, "steps": [st]})
        if op == "write" and n > 1:
            st2 = dict(base, crash_at=k, torn=1 + (case.get("torn_seed", 7) + k) % (n - 1))
            out.append({"hashseed": hs, "kind": "torn-write", "event": k, "steps": [st2]})
    errs = [("open-w", "REUSE.toml", "ENOSPC", None), ("open-w", "REUSE.toml", "EACCES", None),
            ("close", "REUSE.toml", "EIO", None), ("unlink", ".reuse/dep5", "EACCES", None),
            ("unlink", ".reuse/dep5", "EBUSY", None),
            ("write", "REUSE.toml", "ENOSPC", 0), ("write", "REUSE.toml", "EIO", max(0, toml_size // 2)),
            ("write", "REUSE.toml", "ENOSPC", max(0, toml_size - 1))]
    for op, path, en, after in errs:
        f = {"op": op, "path": path, "errno": en}
        if after is not None:
            f["after"] = after
        out.append({"hashseed": hs, "kind": f"error-{op}-{en}", "steps": [dict(base, faults=[f])]})
    return out


# ---- a reference for the dep5 wildcard language (used only to classify a finding) ----------
def dep5_match(pattern, path):
    rx = ""
    i = 0
    while i < len(pattern):
        c = pattern[i]
        if c == "\\" and i + 1 < len(pattern):
            rx += re.escape(pattern[i + 1])
            i += 2
            continue
        rx += ".*" if c == "*" else "." if c == "?" else re.escape(c)
        i += 1
    return re.fullmatch(rx, path, re.DOTALL) is not None


def _features(p):
    f = set()
    bare = re.sub(r"\\\\.", "", p)
    if "?" in bare:
        f.add("qmark-pattern")
    for m in re.finditer(r"\\(.)", p):
        f.add({"*": "escaped-asterisk", "\\": "escaped-backslash"}.get(m.group(1), "escaped-character"))
    if "*/" in bare:
        f.add("wildcard-before-slash")
    return f


def _relaxed(p):
    rx, i = "", 0
    while i < len(p):
        c = p[i]
        if c == "\\" and i + 1 < len(p):
            rx += re.escape(p[i + 1]) + (".*" if p[i + 1] == "*" else "")
            i += 2
            continue
        if c == "*":
            rx += ".*"
            if p[i + 1:i + 2] == "/":
                rx += "/?"
                i += 2
                continue
        elif c == "?":
            rx += "."
        else:
            rx += re.escape(c)
        i += 1
    return rx


def _lint_view(rec):
    try:
        d = json.loads(rec.get("stdout", ""))
    except ValueError:
        return None
    files = {}
    for f in d.get("files", []):
        files[f["path"]] = {"c": sorted({c["value"] for c in f["copyrights"]}), "l": sorted({e["value"] for e in f["spdx_expressions"]})}
    nc = d.get("non_compliant", {})
    cats = {k: (sorted(nc[k]) if isinstance(nc[k], list) else {a: sorted(b) if isinstance(b, list) else b for a, b in sorted(nc[k].items())})
            for k in sorted(nc)}
    return {"files": files, "cats": cats, "compliant": d.get("summary", {}).get("compliant")}


def _dep5_state(world):
    """What sits at .reuse/dep5 when the history starts: the file's text, '-> target' for a symlink, None."""
    for l in world.get("symlinks") or []:
        if l["path"] == ".reuse/dep5":
            return "-> " + l["target"]
    return next((f["content"] for f in world["files"] if f["path"] == ".reuse/dep5"), None)


def _dep5_source(world):
    """The dep5 text itself (through the symlink when there is one)."""
    st = _dep5_state(world)
    if st is not None and st.startswith("-> "):
        tgt = posixpath.normpath(posixpath.join(".reuse", st[3:]))
        return next((f["content"] for f in world["files"] if f["path"] == tgt), "")
    return st or ""


def _final(world, rec):
    """Content of dep5 and REUSE.toml after the step, from the world and the step's diff."""
    orig = {f["path"]: f.get("content", "") for f in world["files"]}
    orig[".reuse/dep5"] = _dep5_state(world)
    out = {}
    for name in (".reuse/dep5", "REUSE.toml"):
        d = (rec.get("diff") or {}).get(name)
        if d is None:
            out[name] = orig.get(name)
        elif d.get("after") is None:
            out[name] = None
        elif d["after"][0] == "l":
            out[name] = "-> " + d["after"][3]
        else:
            out[name] = d.get("content", "<large>")
    return out


def oracle(case, results):
    vs = []
    world = case["world"]
    dep5_text = _dep5_state(world)
    v0 = case["variants"][0]
    r0 = results[0]["records"]
    conv_idx = next((i for i, s in enumerate(v0["steps"]) if s.get("argv", [])[-1:] == ["convert-dep5"]), None)
    if conv_idx is None:
        return vs
    conv = r0[conv_idx]
    if dep5_text is None:
        # no dep5: must refuse with a usage error and change nothing
        if conv.get("exit") != 2 or conv.get("exc") or _real_changes(conv):
            vs.append({"sig": "C17/no-dep5-not-refused", "detail": f"exit={conv.get('exit')} exc={conv.get('exc')} diff={list(conv.get('diff', {}))}"})
        return vs
    if conv.get("exc") or conv.get("exit") != 0:
        # a dep5 the tool itself rejects is outside 'valid dep5': not judged here
        if conv.get("exc"):
            vs.append({"sig": f"C17/convert-raised/{conv['exc']['type']}@{conv['exc']['where']}", "detail": conv["exc"]["tb"][-800:]})
        return vs
    fin0 = _final(world, conv)
    golden = fin0["REUSE.toml"]
    if fin0[".reuse/dep5"] is not None or golden is None:
        vs.append({"sig": "C17/fault-free/not-replaced", "detail": f"after a successful run: dep5 present={fin0['.reuse/dep5'] is not None} REUSE.toml present={golden is not None}"})
    extra = {k for k in _real_changes(conv) if k not in (".reuse/dep5", "REUSE.toml")}
    if extra:
        vs.append({"sig": "C17/fault-free/touched-other-files", "detail": str(sorted(extra))})
    # second conversion (when present) must be refused
    for i in range(conv_idx + 1, len(v0["steps"])):
        if v0["steps"][i].get("argv", [])[-1:] == ["convert-dep5"]:
            rr = r0[i]
            if rr.get("exit") != 2 or rr.get("exc") or _real_changes(rr):
                vs.append({"sig": "C17/no-dep5-not-refused", "detail": f"second run: exit={rr.get('exit')} exc={rr.get('exc')}"})
    # post-condition: lint before == lint after
    if conv_idx >= 1 and conv_idx + 1 < len(r0):
        before, after = _lint_view(r0[conv_idx - 1]), _lint_view(r0[conv_idx + 1])
        eb, ea = r0[conv_idx - 1].get("exit"), r0[conv_idx + 1].get("exit")
        if before is None or after is None:
            if (before is None) != (after is None) or eb != ea:
                vs.append({"sig": f"C17/post/lint-unavailable/{_klass(case, None)}", "detail": f"lint before exit={eb}, after exit={ea}; stderr after: {r0[conv_idx + 1].get('stderr', '')[-500:]}"})
        else:
            differing = sorted(p for p in set(before["files"]) | set(after["files"]) if before["files"].get(p) != after["files"].get(p))
            if differing:
                # one violation per responsible pattern feature, so that a recorded finding stays specific
                per_class = {}
                for p in differing:
                    for k in _klass(case, [p]).split("+"):
                        per_class.setdefault(k, []).append(p)
                for k, ps in sorted(per_class.items()):
                    p = ps[0]
                    vs.append({"sig": f"C17/post/lint-differs/{k}",
                               "detail": f"files attributed differently after conversion: {ps[:6]}; e.g. {p}: before={before['files'].get(p)} after={after['files'].get(p)}; exit {eb}->{ea}"})
            elif eb != ea or before["cats"] != after["cats"]:
                vs.append({"sig": "C17/post/lint-differs/categories-only",
                           "detail": f"exit {eb}->{ea}; before={json.dumps(before['cats'])[:300]} after={json.dumps(after['cats'])[:300]}"})
    # ordering invariant at every crash / error point
    for vi in range(1, len(case["variants"])):
        var = case["variants"][vi]
        rec = results[vi]["records"][0]
        fin = _final(world, rec)
        dep5_ok = fin[".reuse/dep5"] == dep5_text
        toml_ok = golden is not None and fin["REUSE.toml"] == golden
        kind = var.get("kind", "?")
        if not dep5_ok and not toml_ok:
            state = ("dep5 " + ("missing" if fin[".reuse/dep5"] is None else "altered") + ", REUSE.toml "
                     + ("missing" if fin["REUSE.toml"] is None else f"incomplete ({len(fin['REUSE.toml'])} of {len(golden or '')} bytes)"))
            vs.append({"sig": f"C17/ordering/neither-survives/{kind.split('-')[0]}",
                       "detail": f"{kind} at event {var.get('event')}: {state}; fired={rec.get('fired')}"})
        if kind.startswith("error-") and rec.get("fired") and not rec.get("crashed"):
            failed = bool(rec.get("exc")) or rec.get("exit") not in (0, None)
            if not failed and fin[".reuse/dep5"] is not None:
                # success was reported although dep5 is still there: the project now holds both files and every
                # later command refuses it
                vs.append({"sig": "C17/error/success-reported-with-dep5-still-present", "detail": f"{kind}: exit 0, .reuse/dep5 present, REUSE.toml {'complete' if toml_ok else 'incomplete'}"})
            if not failed and not toml_ok:
                vs.append({"sig": "C17/error/reported-success", "detail": f"{kind}: exit 0 although REUSE.toml is not complete"})
            if failed and not dep5_ok and not toml_ok:
                pass  # already reported above
    return vs


def _real_changes(rec):
    return {k for k, d in (rec.get("diff") or {}).items() if d.get("before") != d.get("after") or
            (d.get("touched") and d.get("after") and d["after"][0] == "f")}


def _klass(case, differing):
    """Name the dep5 feature responsible, so that a known finding stays specific."""
    text = _dep5_source(case["world"])
    paras = []
    for block in text.split("\n\n"):
        m = re.search(r"^Files: (.*?)(?=^\S)", block + "\nX", re.S | re.M)
        if m:
            pats = m.group(1).split()
            lic = re.search(r"^License: (.*?)(?=^\S)", block + "\nX", re.S | re.M)
            paras.append((pats, lic.group(1) if lic else ""))
    if not differing:
        return "license-with-text" if any("\n" in lic.strip() for _, lic in paras) else "other"
    klasses = set()
    for path in differing:
        win, win_lic = None, ""
        for pats, lic in paras:
            hit = [p for p in pats if dep5_match(p, path)]
            if hit:
                win, win_lic = hit, lic
        # which pattern features can be responsible: every pattern of the file that matches this path under a
        # relaxed reading (escapes ignored, '?' any character, '*/' also matching nothing)
        feats = set()
        for pats, _ in paras:
            for p in pats:
                if re.fullmatch(_relaxed(p), path, re.DOTALL):
                    feats |= _features(p)
        klasses |= feats or {"other"}
    return "+".join(sorted(klasses))


def account(case, results, cov):
    w = digest(case["world"])
    for vi, var in enumerate(case["variants"][1:], 1):
        rec = results[vi]["records"][0]
        if rec.get("fired"):
            cov.nontrivial.add((w, var.get("event"), var.get("kind")))
            cov.bump("variants." + var.get("kind", "?").split("-")[0])
    ev = (results[0]["records"][1].get("mut_events") or []) if len(results[0]["records"]) > 1 else []
    cov.bump("mutating_events_enumerated", len(ev))
    cov.extra["max_events_in_one_run"] = max(cov.extra.get("max_events_in_one_run", 0), len(ev))
    if len(cov.samples) < 3:
        cov.samples.append({"seed": case["seed"], "dep5": _dep5_source(case["world"])[:600],
                            "events": ev[:12], "variants": [v.get("kind") for v in case["variants"]][:30]})


def extra_coverage(cov):
    return {"exhaustive_per_world": True,
            "explanation": "crash/error boundaries are enumerated completely for each executed conversion; worlds are sampled"}
