"""C19 - download never overwrites and supplies exactly the missing licences.

Histories of download / lint / user steps against a project, with a per-identifier network
outcome decided by the plan (SimNet). Model: path -> bytes, advanced by the recorded diffs.
"""
import json
import posixpath

from rsim import gen as G
from rsim.prf import Rng, digest

PROP = "C19"
LEVEL = "exploration"
TIERS = {
    "quick": {"cases": 400, "budget_s": 150, "batch": 48},
    "thorough": {"cases": 6000, "budget_s": 900, "batch": 64},
}
RULE = (
    "one case = one seeded project (files using valid, deprecated, unknown, '+'-suffixed, exception and LicenseRef- identifiers; "
    "LICENSES/ absent, empty or holding some targets with sentinel content; with/without Git; cwd in {root, subdirectory, "
    "LICENSES/}) and a history of 1-5 steps from {download IDs, lint+download --all+lint, download -o PATH ID, repeat of an "
    "earlier download, user deletes a licence file}, each download with a network outcome per identifier drawn from {200+text, "
    "HTTP 404/500, URLError, connect timeout, non-200 status, failure inside the body (IncompleteRead / reset / timeout), "
    "non-UTF-8 body}; 40% of the cases are fault-free. Non-trivial = at least one network fault fired inside a batch of >=1 "
    "identifiers or the history has >=2 effective download steps; distinct = distinct plan digests"
)
EXPECTED_PROBES = ["download.file_exists", "download.url_error", "download.licenseref_copy", "download.licenseref_touch",
                   "download.non200", "download.source_not_found", "download.licenses_dir_hack"]

# pairs in which one identifier is the beginning of the other belong to different licences
IDS = G.VALID + G.DEPRECATED + G.EXCEPTIONS + ["MIT-0", "BSD-3-Clause-Clear", "GPL-2.0-only", "Apache-1.1"]
# real licence texts are not ASCII: copyright signs, typographic quotes, names
TEXTS = {i: f"Licence text of {i}\nCopyright \u00a9 the \u201cauthors\u201d, Ren\u00e9 \u2013 line two\n" for i in IDS}
TEXTS["MIT"] = "MIT License\n\nCopyright (c) <year> <copyright holders>\n\nPermission is hereby granted… ünïcode\r\nCRLF line\n"
TEXTS["0BSD"] = "x"
TEXTS["CC0-1.0"] = "CC0 " * 3000 + "\n"
SENTINEL = "PRE-EXISTING CONTENT - must never change\n"
FAIL_KINDS = [
    (5, {"kind": "http", "code": 404}), (3, {"kind": "http", "code": 500}), (4, {"kind": "urlerror"}),
    (1, {"kind": "http", "code": 503}), (1, {"kind": "http", "code": 429}), (1, {"kind": "http", "code": 502}), (1, {"kind": "http", "code": 504}),
    (1, {"kind": "http", "code": 403}), (1, {"kind": "status", "code": 206}),
    (3, {"kind": "timeout"}), (3, {"kind": "status", "code": 204}), (1, {"kind": "status", "code": 301}),
    (2, {"kind": "midbody", "exc": "IncompleteRead"}), (2, {"kind": "midbody", "exc": "reset"}),
    (1, {"kind": "midbody", "exc": "timeout"}), (1, {"kind": "notutf8"}),
]
ANTICIPATED = {"http", "urlerror", "timeout", "status"}


def _strip(i):
    return i[:-1] if i.endswith("+") else i


def gen_case(seed, tier, index=0):
    rng = Rng(seed, "c19")
    faulty = rng.chance(0.6)
    files = []
    used = rng.sample(IDS + G.LICENSEREF + G.UNKNOWN + ["MIT+", "GPL-2.0+", "Apache-2.0+"], rng.randint(1, 5))
    for k, lic in enumerate(used):
        d = rng.pick(["", "src", "docs"])
        files.append({"path": posixpath.join(d, f"f{k}.py"),
                      "content": f"# SPDX-FileCopyrightText: 2020 Jane\n# SPDX-License-Identifier: {lic}\n"})
    if rng.chance(0.3):
        files.append({"path": "src/both.py", "content": "# SPDX-FileCopyrightText: 2020 J\n# SPDX-License-Identifier: MIT OR (0BSD AND GPL-3.0-or-later WITH Classpath-exception-2.0)\n"})
    files.append({"path": "src/keep.py", "content": "# SPDX-FileCopyrightText: 2020 J\n# SPDX-License-Identifier: CC0-1.0\n"})
    lic_state = rng.pick(["absent", "empty", "some", "some"])
    world = {"files": files}
    if lic_state == "empty":
        world["dirs"] = ["LICENSES"]
    elif lic_state == "some":
        cand = sorted({_strip(u) for u in used} | {"MIT", "CC0-1.0"})
        for lic in rng.sample(cand, min(len(cand), rng.randint(1, 3))):
            files.append({"path": f"LICENSES/{lic}.txt", "content": SENTINEL})
    files.append({"path": "srclic/LicenseRef-Custom.txt", "content": "custom licence text from the source directory\n"})
    files.append({"path": "srclic/LicenseRef-Custom.txt.license", "content": "SPDX-FileCopyrightText: 2020 J\nSPDX-License-Identifier: CC0-1.0\n"})
    # neighbours in the source directory whose names extend the identifier
    files.append({"path": "srclic/LicenseRef-Custom.v2.txt", "content": "text of ANOTHER licence, LicenseRef-Custom.v2\n"})
    files.append({"path": "srclic/LicenseRef-Custom.md", "content": "# not the licence text\n"})
    files.append({"path": "srclic/LicenseRef-Other.1.txt", "content": "text of LicenseRef-Other.1 from the source directory\n"})
    git = rng.chance(0.4)
    if git:
        world["git"] = {"commit": True}
    cwd = rng.wpick([(5, "."), (2, "src"), (2, "LICENSES"), (2, "vendor/lib/LICENSES")])
    if cwd == "vendor/lib/LICENSES":
        # a nested directory that merely happens to be called LICENSES
        world.setdefault("dirs", []).append("vendor/lib/LICENSES")
        files.append({"path": "vendor/lib/readme.py", "content": "# SPDX-FileCopyrightText: 2020 J\n# SPDX-License-Identifier: CC0-1.0\n"})
    if cwd == "LICENSES" and lic_state == "absent":
        cwd = "."
    have_src = any(f["path"].startswith("src/") for f in files)
    if cwd == "src" and not have_src:
        cwd = "."
    root_opt = []
    if cwd == "vendor/lib/LICENSES":
        if not git or rng.chance(0.5):
            root_opt = ["--root", "../../.."]
    elif cwd != "." and (not git or rng.chance(0.3)):
        if rng.chance(0.7):
            root_opt = ["--root", ".."]

    def net_for(ids):
        net = {}
        for i in ids:
            i = _strip(i)
            if i.startswith("LicenseRef-"):
                continue
            if i not in TEXTS:
                net[i] = {"kind": "http", "code": 404}
            elif faulty and rng.chance(0.35):
                net[i] = dict(rng.wpick(FAIL_KINDS))
            else:
                net[i] = {"kind": "ok", "text": TEXTS[i]}
        return net

    all_ids = IDS + G.LICENSEREF + G.UNKNOWN + ["MIT+", "EUPL-1.2+"]
    steps = []
    earlier = []
    pool = {"n": rng.pick([1, 2, 3]), "key": rng.randrange(1 << 30)}
    for _ in range(rng.randint(1, 4)):
        k = rng.wpick([(5, "dl"), (3, "all"), (2, "out"), (1, "repeat"), (1, "del"), (1, "usage")])
        if k == "dl":
            ids = rng.sample(all_ids, rng.randint(1, 4))
            argv = root_opt + ["download"] + ids
            if any(i.startswith("LicenseRef-") for i in ids) and rng.chance(0.6):
                src = rng.pick(["srclic", "srclic/LicenseRef-Custom.txt", "src"])
                up = "" if (cwd == ".") else "../" * (cwd.count("/") + 1)
                argv = root_opt + ["download", "--source", up + src] + ids
            st = {"argv": argv, "cwd": cwd, "net": net_for(ids), "pool": pool, "readdir_key": rng.randrange(1 << 30)}
            steps.append(st)
            earlier.append(st)
        elif k == "all":
            lint = {"argv": root_opt + ["--no-multiprocessing", "lint", "--json"], "cwd": cwd}
            steps.append(dict(lint))
            steps.append({"argv": root_opt + ["download", "--all"], "cwd": cwd, "net": net_for(all_ids), "pool": pool})
            steps.append(dict(lint))
        elif k == "out":
            i = rng.pick(IDS + G.LICENSEREF)
            out = rng.pick(["custom-name.txt", "LICENSES/Other-Name.txt", "newdir/x.txt", "deep/er/x.txt", "src/keep.py", "srclic/out.txt"])
            up = "" if cwd == "." else "../" * (cwd.count("/") + 1)
            steps.append({"argv": root_opt + ["download", "-o", up + out, i], "cwd": cwd, "net": net_for([i]), "pool": pool})
        elif k == "repeat" and earlier:
            st = dict(rng.pick(earlier))
            st["net"] = net_for(st["argv"][st["argv"].index("download") + 1:])
            steps.append(st)
        elif k == "del":
            cands = [f["path"] for f in files if f["path"].startswith("LICENSES/")]
            if cands:
                steps.append({"user": {"op": "delete", "path": rng.pick(cands)}})
        elif k == "usage":
            steps.append({"argv": root_opt + rng.pick([["download", "--all", "MIT"], ["download", "-o", "x.txt", "MIT", "0BSD"],
                                                       ["download", "--all", "-o", "x.txt"]]),
                          "cwd": cwd, "net": net_for(["MIT", "0BSD"]), "pool": pool})
    if not any("argv" in s and "download" in s["argv"] for s in steps):
        ids = rng.sample(IDS, 2)
        steps.append({"argv": root_opt + ["download"] + ids, "cwd": cwd, "net": net_for(ids), "pool": pool})
    if rng.chance(0.12):
        # the user's locale is not UTF-8 (LC_ALL=C without Python's coercion): what is written must still be the bytes
        # that were served
        for st in steps:
            if "argv" in st:
                st["env"] = {"LC_ALL": "C", "LANG": "C", "PYTHONUTF8": "0", "PYTHONCOERCECLOCALE": "0"}
    return {"prop": PROP, "seed": seed, "world": world, "faulty": faulty,
            "variants": [{"hashseed": rng.randrange(8), "steps": steps}]}


# ---- oracle ---------------------------------------------------------------------------------
def _parse_download(argv):
    a = list(argv)
    root = None
    if "--root" in a:
        i = a.index("--root")
        root = a[i + 1]
        del a[i:i + 2]
    a = a[a.index("download") + 1:]
    ids, out, src, all_ = [], None, None, False
    i = 0
    while i < len(a):
        if a[i] == "--all":
            all_ = True
        elif a[i] in ("-o", "--output"):
            out = a[i + 1]
            i += 1
        elif a[i] == "--source":
            src = a[i + 1]
            i += 1
        else:
            ids.append(a[i])
        i += 1
    return root, ids, out, src, all_


def _norm(cwd, p):
    return posixpath.normpath(posixpath.join(cwd, p))


def oracle(case, results):
    vs = []
    world = case["world"]
    git = bool(world.get("git"))
    tree = {f["path"]: f.get("content", "") for f in world["files"]}
    dirs = set(world.get("dirs") or [])
    for p in list(tree):
        d = posixpath.dirname(p)
        while d:
            dirs.add(d)
            d = posixpath.dirname(d)
    steps = case["variants"][0]["steps"]
    recs = results[0]["records"]
    last_missing = None
    pending_all_ok = False
    for si, (st, rec) in enumerate(zip(steps, recs)):
        if "user" in st:
            if rec.get("result") == "ok" and st["user"]["op"] == "delete":
                tree.pop(st["user"]["path"], None)
            continue
        argv = st["argv"]
        cwd = st.get("cwd", ".")
        if "lint" in argv:
            try:
                d = json.loads(rec.get("stdout", ""))
                last_missing = sorted(d["non_compliant"]["missing_licenses"])
            except (ValueError, KeyError):
                last_missing = None
            if pending_all_ok and last_missing:
                vs.append({"sig": "C19/lint-still-missing-after-download-all",
                           "detail": f"download --all exited 0 but lint still reports missing {last_missing}"})
            pending_all_ok = False
            _apply(tree, dirs, rec)
            if _file_changes(rec):
                vs.append({"sig": "C19/lint-changed-tree", "detail": str(_file_changes(rec))})
            continue
        root_arg, ids, out, src, all_ = _parse_download(argv)
        # usage errors: nothing may change
        usage = (all_ and ids) or (len(ids) > 1 and out) or (all_ and out)
        changes = _file_changes(rec)
        if usage:
            if rec.get("exit") != 2 or changes:
                vs.append({"sig": "C19/usage-error-not-clean", "detail": f"argv={argv} exit={rec.get('exit')} changes={changes}"})
            _apply(tree, dirs, rec)
            continue
        if rec.get("exit") == 2 and not rec.get("exc"):
            # e.g. --source does not exist: click refuses before anything happens
            if changes:
                vs.append({"sig": "C19/usage-error-not-clean", "detail": f"argv={argv} changes={changes}"})
            _apply(tree, dirs, rec)
            continue
        eff_root = _norm(cwd, root_arg) if root_arg is not None else ("." if git else cwd)
        if all_:
            if last_missing is None:
                _apply(tree, dirs, rec)
                continue
            req = sorted({_strip(i) for i in last_missing})
        else:
            req = sorted({_strip(i) for i in ids})
        net = st.get("net") or {}
        lic_dir = "LICENSES" if (eff_root == "LICENSES" and not git) else _norm(eff_root, "LICENSES")
        expected_fail = False
        inbody = False
        allowed_new = set()
        # an unanticipated failure inside a body ends the run with a traceback today; the statement does not
        # promise that the rest of the batch is attempted then (noted in DESIGN.md, not alarmed)
        aborted = bool(rec.get("exc")) and any((net.get(j) or {}).get("kind") in ("midbody", "notutf8") for j in req)
        for i in req:
            dest = _norm(cwd, out) if out else posixpath.join(lic_dir, i + ".txt")
            allowed_new.add(dest)
            d = (rec.get("diff") or {}).get(dest)
            pre = dest in tree or dest in dirs
            parent_ok = posixpath.dirname(posixpath.dirname(dest)) in dirs | {""}
            if pre:
                expected_fail = True
                continue  # 'never alters an existing file' is checked globally below
            if not parent_ok:
                expected_fail = True
                if d and d.get("after"):
                    vs.append({"sig": "C19/created-despite-missing-parent", "detail": dest})
                continue
            if i.startswith("LicenseRef-"):
                want = ""
                if src is not None:
                    s = _norm(cwd, src)
                    if s in dirs:
                        s = posixpath.join(s, i + ".txt")
                    if s in tree:
                        want = tree[s]
                    else:
                        want = None
                if want is None:
                    expected_fail = True
                    if d and d.get("after"):
                        vs.append({"sig": "C19/partial-file/source-not-found", "detail": f"{dest} exists although the source for {i} was not found"})
                else:
                    if not d or not d.get("after"):
                        if not aborted:
                            vs.append({"sig": "C19/licenseref-not-created", "detail": f"{dest} missing; stdout={rec.get('stdout', '')[-300:]} exc={(rec.get('exc') or {}).get('type')}"})
                    elif d.get("content") != want:
                        vs.append({"sig": "C19/content-mismatch/licenseref", "detail": f"{dest}: {d.get('content')!r:.200} != {want!r:.200}"})
                continue
            o = net.get(i) or {"kind": "http", "code": 404}
            kind = o["kind"]
            if kind == "ok":
                if not d or not d.get("after"):
                    # only acceptable when an unanticipated (in-body) failure of another identifier ended the run
                    if not aborted:
                        vs.append({"sig": "C19/not-written-although-transfer-succeeded",
                                   "detail": f"{dest} missing; batch={req}; outcomes={[(j, (net.get(j) or {}).get('kind')) for j in req]}; stdout={rec.get('stdout', '')[-400:]}"})
                elif d.get("content", "<large>") not in (o["text"], "<large>") and len(o["text"]) < 60000:
                    vs.append({"sig": "C19/content-mismatch", "detail": f"{dest}: got {d.get('content')!r:.120}"})
            else:
                expected_fail = True
                if kind not in ANTICIPATED:
                    inbody = True
                if d and d.get("after"):
                    vs.append({"sig": f"C19/partial-file/{kind}", "detail": f"{dest} exists ({d['after'][2]} bytes) although the transfer of {i} failed with {o}"})
        # global: nothing pre-existing altered, nothing new outside the allowed destinations
        for label, d in sorted((rec.get("diff") or {}).items()):
            b, a = d.get("before"), d.get("after")
            if b and b[0] == "d" and a and a[0] == "d" and b == a:
                continue  # directory mtime only
            if b is None and a and a[0] == "d":
                if any(x == label or x.startswith(label + "/") for x in allowed_new) or label == lic_dir:
                    continue
                vs.append({"sig": "C19/wrote-outside/dir", "detail": label})
                continue
            if b is not None:
                vs.append({"sig": "C19/existing-file-altered", "detail": f"{label}: {b} -> {a} touched={d.get('touched')}"})
            elif label not in allowed_new:
                vs.append({"sig": "C19/wrote-outside", "detail": f"{label} created; allowed={sorted(allowed_new)}"})
        failed = bool(rec.get("exc")) or rec.get("exit") not in (0,)
        if expected_fail and not failed:
            vs.append({"sig": "C19/exit-status/failure-not-reported", "detail": f"argv={argv} exit=0 although a requested identifier was not written; net={ {k: v['kind'] for k, v in net.items() if k in req} }"})
        if not expected_fail and failed:
            vs.append({"sig": "C19/exit-status/success-reported-as-failure",
                       "detail": f"argv={argv} exit={rec.get('exit')} exc={(rec.get('exc') or {}).get('type')} stdout={rec.get('stdout', '')[-300:]}"})
        if rec.get("exc") and not inbody:
            vs.append({"sig": f"C19/traceback/{rec['exc']['type']}@{rec['exc']['where']}", "detail": rec["exc"]["tb"][-600:]})
        pending_all_ok = all_ and not failed
        _apply(tree, dirs, rec)
    return vs


def _file_changes(rec):
    out = []
    for label, d in (rec.get("diff") or {}).items():
        b, a = d.get("before"), d.get("after")
        if b and a and b[0] == "d" and a[0] == "d" and b == a:
            continue
        out.append(label)
    return sorted(out)


def _apply(tree, dirs, rec):
    for label, d in (rec.get("diff") or {}).items():
        a = d.get("after")
        if a is None:
            tree.pop(label, None)
            dirs.discard(label)
        elif a[0] == "d":
            dirs.add(label)
        elif a[0] == "f":
            tree[label] = d.get("content", "<large>")


def account(case, results, cov):
    recs = results[0]["records"]
    fired = [k for r in recs for k in r.get("fired", []) if k.startswith("net:")]
    dls = sum(1 for s in case["variants"][0]["steps"] if "argv" in s and "download" in s["argv"])
    if fired or dls >= 2:
        cov.nontrivial.add(digest([case["world"], case["variants"]]))
    cov.bump("histories_with_net_fault", 1 if fired else 0)
    cov.bump("histories_fault_free", 0 if case.get("faulty") else 1)
    cov.bump("download_steps", dls)
    if len(cov.samples) < 3 and fired:
        cov.samples.append({"seed": case["seed"], "git": bool(case["world"].get("git")),
                            "licenses_pre": [f["path"] for f in case["world"]["files"] if f["path"].startswith("LICENSES/")],
                            "steps": [{"argv": s.get("argv"), "cwd": s.get("cwd"), "net": {k: v["kind"] for k, v in (s.get("net") or {}).items()}}
                                      if "argv" in s else s for s in case["variants"][0]["steps"]]})
