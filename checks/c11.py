"""C11 - a failed annotation leaves the tree as it was and shows in the exit status.

One annotate invocation over several files in which a constructed subset cannot be
annotated, at every processing position (argv order x the iteration order of the path set,
which follows the hash seed: each batch is executed under two hash seeds), with every
.license option. Whole-tree snapshot before/after.
"""
from checks import annot as A
from rsim import gen as G
from rsim.prf import Rng, digest

PROP = "C11"
LEVEL = "exploration"
MIN_VARIANTS = 1
TIERS = {
    "quick": {"cases": 1000, "budget_s": 150, "batch": 64},
    "thorough": {"cases": 8000, "budget_s": 900, "batch": 64},
}
RULE = (
    "one case = 2-6 files of mixed types (single-line, multi-line-only and dual styles, binary, uncommentable, unrecognised; some "
    "with existing headers or .license siblings) and ONE annotate invocation over all of them in a seeded argument order, executed "
    "under two PYTHONHASHSEED values (the tool iterates a set of paths). Failures are constructed, not hoped for: a holder that "
    "contains one style's comment terminator (fails exactly for files whose effective style is multi-line with that terminator), "
    "an information-dropping template (fails for all files, or exactly for those whose existing header declares a licence), "
    "crossed with --force-dot-license, --fallback-dot-license, --skip-unrecognised, --skip-existing, --style, --multi-line. Usage "
    "errors are a second family (unrecognised type without fallback, unsupported --single-line/--multi-line, mutually exclusive "
    "options, no -c/-l/--contributor, unknown template). Non-trivial = at least one file failed or the command was a usage error; "
    "distinct = distinct plan digests"
)
EXPECTED_PROBES = ["annotate.comment_create_error", "annotate.missing_reuse_info", "annotate.force_dot_license",
                   "annotate.fallback_dot_license", "annotate.skip_unrecognised", "annotate.skip_existing"]
SHRINK_CONTENT = False

POISON = {"*/": "Evil */ Corp", "-->": "Evil --> Corp", "#}": "Evil #} Corp", "*)": "Evil *) Corp", "=#": "Evil =# Corp",
          ":)": "Evil :) Corp", "--}}": "Evil --}} Corp", "'/": "Evil '/ Corp", "*#": "Evil *# Corp", "--%>": "Evil --%> Corp", "}": "Evil } Corp"}
# files whose style comes from their NAME, not their suffix (several share the empty suffix)
BY_NAME = {"Makefile": "python", "Jenkinsfile": "cpp", "ROOT": "ml", "Dockerfile": "python", "Gemfile": "python", "go.mod": "cpp",
           "Rakefile": "python", "CODEOWNERS": "python"}
FILE_STYLES = ["python", "c", "html", "cpp", "ml", "jinja", "julia", "tex", "xquery", "ftl", "handlebars", "haskell", "plantuml",
               "applescript", "bibtex", "vst", "aspx"]


def _gen_big(seed, rng):
    """A batch of several dozen files, run WITH multiprocessing allowed and under a seeded pool schedule: whatever
    annotate may hand to worker processes, every file gets the verdict that belongs to it."""
    files, metas = [], []
    n = rng.randint(36, 70)
    kinds = rng.pick([["html", "bin"], ["html", "bin", "py"], ["html", "py"], ["c", "bin", "py"]])
    for i in range(n):
        k = rng.pick(kinds)
        d = f"d{i % 4}"
        if k == "bin":
            m = {"kind": "uncommentable", "existing_lic": False, "sibling": False, "path": f"{d}/b{i:02d}.png"}
            files.append({"path": m["path"], "content": G.BINARY})
        else:
            st = {"html": "html", "py": "python", "c": "c"}[k]
            m = {"kind": "styled", "style": st, "existing_lic": False, "sibling": False, "path": f"{d}/t{i:02d}{G.STYLES[st][7]}"}
            files.append({"path": m["path"], "content": G.body_for(st) * rng.pick([1, 1, 40])})
        metas.append(m)
    tok = "-->" if "html" in kinds else "*/"
    opts = {"holders": [rng.pick(A.SAFE_HOLDERS), POISON[tok]], "licenses": ["MIT"]}
    names = [m["path"] for m in metas]
    rng.shuffle(names)
    obs = [{"kind": "reuse_info", "path": p} for m in metas for p in (m["path"], m["path"] + ".license")]
    step = {"argv": A.argv_of(opts, names), "clock": "2024-05-05T05:05:05", "observe": obs, "cwd": ".",
            "pool": {"n": rng.pick([2, 3, 4, 8]), "key": rng.randrange(1 << 30)}}
    hs = rng.sample(range(8), 2)
    if rng.chance(0.5):
        step["nofile"] = rng.pick([40, 48, 64])  # a small descriptor table: every file opened has to be closed again
    steps = [dict(step), dict(step, pool={"n": rng.pick([2, 3, 5]), "key": rng.randrange(1 << 30)})]
    return {"prop": PROP, "seed": seed, "world": {"files": files}, "metas": metas, "opts": opts, "family": "poison",
            "poison": tok, "usage": None, "named_dirs": None, "big": True,
            "variants": [{"hashseed": hs[0], "steps": [steps[0]]}, {"hashseed": hs[1], "steps": [steps[1]]}]}


def gen_case(seed, tier, index=0):
    rng = Rng(seed, "c11")
    if rng.chance(0.05):
        return _gen_big(seed, rng)
    family = rng.wpick([(5, "poison"), (3, "template"), (3, "usage")])
    files, metas = [], []
    n = rng.randint(2, 6)
    for i in range(n):
        k = rng.wpick([(8, "styled"), (2, "byname"), (1, "binary"), (1, "uncommentable"), (1, "unrecognised")])
        m = {"kind": k, "existing_lic": False, "sibling": False}
        if k in ("styled", "byname"):
            if k == "byname":
                fname = rng.pick(sorted(BY_NAME))
                style = BY_NAME[fname]
                name = f"d{i}/{fname}"
                m["kind"] = k = "styled"
            else:
                style = rng.pick(FILE_STYLES)
                name = f"d{i % 2}/f{i}{G.STYLES[style][7]}"
            m["style"] = style
            h = rng.randrange(4)
            body = G.body_for(style)
            if h == 0:
                content = G.comment(style, "SPDX-FileCopyrightText: 2011 Old Holder\n\nSPDX-License-Identifier: 0BSD", multi=not G.can_single(style)) + "\n\n" + body
                m["existing_lic"] = True
            elif h == 1:
                content = G.comment(style, "SPDX-FileCopyrightText: 2011 Old Holder", multi=not G.can_single(style)) + "\n\n" + body
            else:
                content = body
        elif k == "binary":
            name, content = f"d{i % 2}/f{i}.bin", G.BINARY
        elif k == "uncommentable":
            name, content = f"d{i % 2}/f{i}.json", '{"a": 1}\n'
        else:
            name, content = f"d{i % 2}/f{i}.zzz", "unknown type\n"
        m["path"] = name
        files.append({"path": name, "content": content})
        if rng.chance(0.15):
            m["sibling"] = True
            sib = rng.pick(["SPDX-FileCopyrightText: 2010 Sibling Holder\nSPDX-License-Identifier: CC0-1.0\n", "SPDX-FileCopyrightText: 2010 Sibling Holder\n", ""])
            m["sibling_lic"] = "SPDX-License-Identifier" in sib
            files.append({"path": name + ".license", "content": sib})
        metas.append(m)
    opts = {"holders": [rng.pick(A.SAFE_HOLDERS)], "licenses": [rng.pick(["MIT", "Apache-2.0", "GPL-3.0-or-later"])]}
    if rng.chance(0.3):
        opts["contributors"] = ["Bob Builder"]
    if rng.chance(0.3):
        opts["years"] = ["2019"]
    dl = rng.wpick([(4, None), (2, "force_dot_license"), (3, "fallback_dot_license"), (3, "skip_unrecognised")])
    if dl:
        opts[dl] = True
    if rng.chance(0.12):
        opts["skip_existing"] = True
    if rng.chance(0.15) and not opts.get("skip_unrecognised"):
        opts["style"] = rng.pick(["python", "c", "html", "cpp", "julia"])
    if rng.chance(0.2):
        opts["multi_line"] = True
    extra = []
    usage = None
    links, hardlinks, alias_names = [], [], []
    tail = False
    if family == "poison":
        tok = rng.pick(sorted(POISON))
        if rng.chance(0.7):
            # prefer a terminator that some file of the batch actually uses
            toks = [G.STYLES[m["style"]][2][2] for m in metas if m["kind"] == "styled" and G.STYLES[m["style"]][2][2]]
            if opts.get("style"):
                toks = [G.STYLES[opts["style"]][2][2]] if G.STYLES[opts["style"]][2][2] else toks
            if toks:
                tok = rng.pick(sorted(toks))
        where = rng.pick(["holder", "holder", "contributor", "tail"])
        if where == "tail":
            # a holder that is a ready-made notice and ENDS in the terminator: it cannot be read back from any kind of
            # header (the reader strips every style's terminator), so every file of the batch must be refused
            tail = True
            opts["holders"] = opts["holders"] + [f"{rng.pick(['Copyright', 'SPDX-FileCopyrightText:', 'Copyright (C)'])} 2019 Evil Corp {tok}"]
        elif where == "holder":
            opts["holders"] = opts["holders"] + [POISON[tok]]
        else:
            opts["contributors"] = (opts.get("contributors") or []) + [POISON[tok]]
        case_poison = tok
    else:
        case_poison = None
    if family == "template":
        t = rng.pick(["nothing", "nolicence", "nolicence-holders-only", "nocopyright", "firstonly"])
        if t == "firstonly":
            # two holders, a template that keeps one: every file of the batch loses a line and must be refused, the
            # first one and the last one alike
            opts["holders"] = rng.sample(A.SAFE_HOLDERS, 2)
        if t == "nolicence-holders-only":
            opts["licenses"] = []
            t = "nolicence"
            # next to a file that has a licence to lose, a twin of the same type with the same notice and no licence:
            # the two render to the same header text, one must fail and the other succeed, in whichever order they come
            for m in list(metas):
                if m["kind"] == "styled" and m.get("existing_lic") and not m.get("sibling") and rng.chance(0.7):
                    d, base = m["path"].rsplit("/", 1)
                    twin = f"{d}/twin-{base}" if base.startswith("f") and "." in base else None  # not the by-name types
                    if twin is None:
                        continue
                    st = m["style"]
                    files.append({"path": twin, "content": G.comment(st, "SPDX-FileCopyrightText: 2011 Old Holder", multi=not G.can_single(st))
                                  + "\n\n" + G.body_for(st)})
                    metas.append({"kind": "styled", "style": st, "path": twin, "existing_lic": False, "sibling": False})
        opts["template"] = t
        extra = A.template_files([t])
        if rng.chance(0.5):
            # a complete template of the same name in its 'commented' variant: X.jinja2 is the one --template X means
            extra.append({"path": f".reuse/templates/{t}.commented.jinja2",
                          "content": "{% for copyright_line in copyright_lines %}\n# {{ copyright_line }}\n{% endfor %}\n#\n"
                                     "{% for expression in spdx_expressions %}\n# SPDX-License-Identifier: {{ expression }}\n{% endfor %}\n"})
    if family == "usage":
        usage = rng.pick(["no-info", "mutex-lines", "mutex-style", "unknown-template", "unsupported-line", "unsupported-line",
                          "unsupported-line", "unrecognised", "mutex-year", "nonexistent"])
        if usage == "no-info":
            opts["holders"], opts["licenses"] = [], []
            opts.pop("contributors", None)
        elif usage == "mutex-lines":
            opts["multi_line"] = True
            opts["single_line"] = True
        elif usage == "mutex-style":
            for f in ("force_dot_license", "fallback_dot_license", "skip_unrecognised"):
                opts.pop(f, None)
            a, b = rng.sample(["force_dot_license", "fallback_dot_license", "skip_unrecognised"], 2)
            opts[a] = opts[b] = True
        elif usage == "unknown-template":
            opts["template_raw"] = "does-not-exist"
        elif usage == "mutex-year":
            opts["years"] = ["2019"]
            opts["exclude_year"] = True
        elif usage == "unsupported-line":
            # --single-line with a multi-line-only file, or --multi-line with a single-line-only file, somewhere in the batch
            opts.pop("style", None)
            opts.pop("multi_line", None)
            for f in ("force_dot_license", "skip_unrecognised"):
                opts.pop(f, None)
            opts["fallback_dot_license"] = True  # so that an unrecognised file in the batch is not the (earlier) usage error
            which = rng.pick(["single_line", "multi_line"])
            opts[which] = True
            style = "c" if which == "single_line" else "python"
            pos = rng.randrange(len(metas) + 1)
            name = f"d1/trigger{G.STYLES[style][7]}"
            if rng.chance(0.5):
                # the offending file is recognised by its name and shares its (empty) suffix with files of other styles
                name = "dx/ROOT" if which == "single_line" else "dx/Makefile"
                style = "ml" if which == "single_line" else "python"
                other = "dy/Makefile" if which == "single_line" else "dy/Jenkinsfile"
                files.append({"path": other, "content": "all:\n" if which == "single_line" else "pipeline {}\n"})
                metas.append({"kind": "styled", "style": "python" if which == "single_line" else "cpp", "path": other, "existing_lic": False, "sibling": False})
            files.insert(pos, {"path": name, "content": G.body_for(style)})
            metas.insert(pos, {"kind": "styled", "style": style, "path": name, "existing_lic": False, "sibling": False})
        elif usage == "nonexistent":
            # one of the named paths does not exist: nothing at all may be annotated
            alias_names.append(rng.pick(["d0/no-such-file.py", "nowhere/x.c", "d1/f99.py.license"]))
        elif usage == "unrecognised":
            for f in ("force_dot_license", "fallback_dot_license", "skip_unrecognised", "style"):
                opts.pop(f, None)
            pos = rng.randrange(len(metas) + 1)
            files.insert(pos, {"path": "d0/trigger.zzz", "content": "unknown\n"})
            metas.insert(pos, {"kind": "unrecognised", "path": "d0/trigger.zzz", "existing_lic": False, "sibling": False})
            if rng.chance(0.4):
                # the unrecognised file has a second name with a recognised extension (hard link or symlink), named in
                # the same invocation: still a usage error, still nothing touched, whichever name the tool meets first
                alias = {"path": "d0/alias.py", "target": "trigger.zzz"} if rng.chance(0.5) else None
                if alias:
                    links.append(alias)
                else:
                    hardlinks.append({"path": "d0/alias.py", "target": "d0/trigger.zzz"})
                alias_names.append("d0/alias.py")
    names = [m["path"] for m in metas] + alias_names
    rng.shuffle(names)
    if usage == "unsupported-line" and rng.chance(0.4):
        # the offending file is not named: it is found below a directory that is (usage errors come before any writing,
        # however the file got into the batch)
        import posixpath as _pp
        names = sorted({_pp.dirname(n) for n in names})
        opts["recursive"] = True
    cwd, named_dirs, root_opt = ".", None, []
    if family != "usage" and rng.chance(0.25):
        # recursive form, started from a sub-directory with paths like '../d1' (and --root ..)
        import posixpath
        dirs = sorted({posixpath.dirname(n) for n in names})
        named_dirs = rng.sample(dirs, rng.randint(1, len(dirs)))
        cwd = rng.pick(dirs + ["."])
        root_opt = ["--root", posixpath.relpath(".", cwd)] if cwd != "." else []
        names = [posixpath.relpath(d, cwd) for d in named_dirs]
        opts["recursive"] = True
    argv = A.argv_of(opts, names)
    if opts.get("template_raw"):
        argv = argv[:1] + ["--template", opts["template_raw"]] + argv[1:]
    obs = [{"kind": "reuse_info", "path": p} for m in metas for p in (m["path"], m["path"] + ".license")]
    step = {"argv": root_opt + ["--no-multiprocessing"] + argv, "clock": "2024-05-05T05:05:05", "observe": obs, "cwd": cwd}
    hs = rng.sample(range(8), 2)
    if family in ("poison", "template") and rng.chance(0.15):
        # nobody reads standard error any more / it has no space left: the files of the batch are processed all the same
        step["stderr"] = rng.pick(["full", "epipe"])
    world = {"files": files + extra}
    if links:
        world["symlinks"] = links
    if hardlinks:
        world["hardlinks"] = hardlinks
    return {"prop": PROP, "seed": seed, "world": world, "metas": metas, "opts": opts, "family": family,
            "poison": case_poison, "usage": usage, "named_dirs": named_dirs, "poison_tail": tail,
            "variants": [{"hashseed": hs[0], "steps": [dict(step)]}, {"hashseed": hs[1], "steps": [dict(step)]}]}


# ---- the model: which files must fail, which are skipped, which is the target --------------------
def predict(case):
    opts = case["opts"]
    content = {f["path"]: f.get("content", "") for f in case["world"]["files"]}
    out = {}
    for m in case["metas"]:
        p = m["path"]
        if p not in content:
            continue
        if case.get("named_dirs") is not None and p.rsplit("/", 1)[0] not in case["named_dirs"]:
            out[p] = {"target": p, "skipped": True, "fail": False, "sibling": (p + ".license") in content, "unnamed": True}
            continue
        sib = (p + ".license") in content
        style = opts.get("style") or m.get("style")
        to_license = sib or opts.get("force_dot_license") or m["kind"] in ("binary", "uncommentable")
        skipped = False
        if not to_license and style is None:
            if opts.get("skip_unrecognised"):
                skipped = True
            elif opts.get("fallback_dot_license"):
                to_license = True
        target = p + ".license" if to_license else p
        # --style applies to whatever is written, also to a .license file; without it a .license file is not commented
        eff_style = opts.get("style") or (None if to_license else m.get("style"))
        text = content.get(target, "")
        has_any = "SPDX-" in text
        # the existing header is merged only when the effective style can find it
        written_style = None if to_license else m.get("style")
        findable = has_any and _same_syntax(eff_style, written_style)
        existing_lic = findable and "SPDX-License-Identifier" in text
        if opts.get("skip_existing") and has_any:
            skipped = True
        fail = False
        if not skipped:
            if case["family"] == "template":
                t = opts["template"]
                if t == "nothing":
                    fail = bool(opts["holders"] or opts["licenses"] or findable)
                elif t == "nolicence":
                    fail = bool(opts["licenses"]) or existing_lic
                elif t == "nocopyright":
                    fail = bool(opts["holders"]) or (findable and "SPDX-FileCopyrightText" in text)
                elif t == "firstonly":
                    fail = len(opts["holders"]) + (1 if findable and "SPDX-FileCopyrightText" in text else 0) > 1
            if case["family"] == "poison" and case.get("poison_tail"):
                fail = True
            elif case["family"] == "poison" and eff_style:
                single, _, (start, mid, end), *_ = G.STYLES[eff_style]
                multi = (not single) or (opts.get("multi_line") and start and end)
                if multi and end and end in POISON[case["poison"]]:
                    fail = True
        out[p] = {"target": target, "skipped": skipped, "fail": fail, "sibling": sib}
    return out


def _same_syntax(eff, written):
    """Can a header written in style *written* (single-line form when the style has one) be found by style *eff*?"""
    if eff == written:
        return True
    if eff is None or written is None:
        return False
    ws, _, wm, *_ = G.STYLES[written]
    es, _, em, *_ = G.STYLES[eff]
    if ws:
        return bool(es) and es == ws
    return bool(em[0]) and (em[0], em[2]) == (wm[0], wm[2])


def _has_header(case, p):
    c = next((f["content"] for f in case["world"]["files"] if f["path"] == p), "")
    return "SPDX-" in c


def _sib_has_info(case, p):
    c = next((f["content"] for f in case["world"]["files"] if f["path"] == p + ".license"), "")
    return "SPDX-" in c


def _is_usage(case):
    """Usage errors the generator constructed, plus those that follow from the option mix."""
    opts = case["opts"]
    if case.get("usage"):
        return True
    present = {f["path"] for f in case["world"]["files"]}
    for m in case["metas"]:
        if m["path"] not in present:
            continue
        style = opts.get("style") or m.get("style")
        if style is None and not (opts.get("fallback_dot_license") or opts.get("skip_unrecognised") or opts.get("force_dot_license") or opts.get("style")):
            if m["kind"] in ("unrecognised", "binary"):
                return True
        # line-handling check uses the forced style, else the detected one
        s2 = opts.get("style") or m.get("style")
        if s2:
            if opts.get("multi_line") and not G.can_multi(s2):
                return True
            if opts.get("single_line") and not G.can_single(s2):
                return True
    return False


def oracle(case, results):
    vs = []
    opts = case["opts"]
    usage = _is_usage(case)
    pred = predict(case)
    req = A.requested(opts, "2024")
    for vi, var in enumerate(case["variants"]):
        rec = results[vi]["records"][0]
        diff = {k: d for k, d in (rec.get("diff") or {}).items()
                if not (d.get("before") and d.get("after") and d["before"][0] == "d" and d["after"][0] == "d" and d["before"] == d["after"])}
        if rec.get("exc") and var["steps"][0].get("stderr") and rec["exc"]["where"].startswith("utils.py:echo") and not diff:
            # standard error is broken and click could not print its usage message: the run ended before any file was
            # touched, which is all the statement asks of a usage error
            continue
        if rec.get("exc"):
            vs.append({"sig": f"C11/crashed/{rec['exc']['type']}@{rec['exc']['where']}", "detail": rec["exc"]["tb"][-600:]})
            continue
        code = rec.get("exit")
        if usage:
            if code != 2:
                # the generator's usage prediction is conservative only for constructed cases
                if case.get("usage"):
                    vs.append({"sig": f"C11/usage-error-not-detected/{case['usage']}", "detail": f"exit={code} argv={var['steps'][0]['argv']} stdout={rec.get('stdout', '')[-300:]}"})
                continue
            if diff:
                vs.append({"sig": f"C11/usage-error-touched-files/{case.get('usage') or 'derived'}", "detail": f"exit 2 but changed: {sorted(diff)} argv={var['steps'][0]['argv']}"})
            continue
        if code == 2:
            if diff:
                vs.append({"sig": "C11/usage-error-touched-files/unpredicted", "detail": f"exit 2 but changed: {sorted(diff)} argv={var['steps'][0]['argv']} stderr={rec.get('stderr', '')[-300:]}"})
            continue
        obs = rec.get("obs") or []
        names = [p for m in case["metas"] for p in (m["path"], m["path"] + ".license")]
        info = dict(zip(names, obs))
        any_fail = False
        for p, pr in sorted(pred.items()):
            fam = case["family"] if case["family"] != "template" else "template-" + opts.get("template", "")
            opt_tag = "force" if opts.get("force_dot_license") else "fallback" if opts.get("fallback_dot_license") else "plain"
            if pr["fail"]:
                any_fail = True
                for q in (p, p + ".license"):
                    if q in diff:
                        d = diff[q]
                        what = "created" if d.get("before") is None else "changed"
                        kind = "sibling" if q.endswith(".license") else "file"
                        vs.append({"sig": f"C11/failed-file-not-left-alone/{kind}-{what}/{fam}/{opt_tag}",
                                   "detail": f"{q}: {d.get('before')} -> {d.get('after')} (content {d.get('content', '')!r:.120}); the header for {p} could not be produced; argv={var['steps'][0]['argv']} stdout={rec.get('stdout', '')[-400:]}"})
            elif pr["skipped"]:
                for q in (p, p + ".license"):
                    if q in diff:
                        vs.append({"sig": f"C11/skipped-file-changed/{opt_tag}", "detail": f"{q} changed although {p} was to be skipped; argv={var['steps'][0]['argv']}"})
            else:
                got = info.get(pr["target"]) or {}
                if "error" in got or not (set(req["copyrights"]) <= set(got.get("copyrights", [])) and set(req["licenses"]) <= set(got.get("licenses", []))):
                    vs.append({"sig": f"C11/remaining-file-not-processed/{fam}/{opt_tag}",
                               "detail": f"{p}: target {pr['target']} declares {got} but {req} was requested; batch order={var['steps'][0]['argv'][-len(pred):]} stdout={rec.get('stdout', '')[-500:]}"})
        want = 1 if any_fail else 0
        if code != want:
            vs.append({"sig": f"C11/exit-status/expected-{want}-got-{code}/{case['family']}",
                       "detail": f"failing files: {[p for p, pr in pred.items() if pr['fail']]}; stdout={rec.get('stdout', '')[-400:]} argv={var['steps'][0]['argv']}"})
    return vs


def account(case, results, cov):
    pred = predict(case)
    nf = sum(1 for pr in pred.values() if pr["fail"])
    if nf or _is_usage(case):
        cov.nontrivial.add(digest([case["world"], case["variants"][0]["steps"][0]["argv"]]))
    cov.bump("family." + case["family"])
    cov.bump("files_constructed_to_fail", nf)
    cov.bump("batches_with_partial_failure", 1 if 0 < nf < len(pred) else 0)
    cov.bump("usage_cases", 1 if _is_usage(case) else 0)
    orders = set()
    for vi in range(len(case["variants"])):
        out = results[vi]["records"][0].get("stdout", "")
        orders.add(digest([l.split("'")[-2] if "'" in l else l.split()[-1] for l in out.splitlines() if l.strip()]))
    cov.bump("batches_processed_in_different_order_under_the_two_hash_seeds", 1 if len(orders) > 1 else 0)
    if len(cov.samples) < 3 and 0 < nf < len(pred):
        cov.samples.append({"seed": case["seed"], "argv": case["variants"][0]["steps"][0]["argv"], "predicted": pred,
                            "hashseeds": [v["hashseed"] for v in case["variants"]]})
