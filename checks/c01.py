"""C01 (facet d) - lint verdict under read faults, crossed with constructed defects.

Worlds are compliant by construction with 0-4 injected defects whose category is known
because the generator put them there; a subset F of files gets a read fault. The expected
report is computed from the abstract world by a small model of the inventory rules.
"""
import json
import posixpath
import re

from rsim import gen as G
from rsim.prf import Rng, digest

PROP = "C01"
LEVEL = "exploration"
MIN_VARIANTS = 1
TIERS = {
    "quick": {"cases": 420, "budget_s": 150, "batch": 48},
    "thorough": {"cases": 8000, "budget_s": 900, "batch": 64},
}
RULE = (
    "one case = one project that is REUSE-compliant by construction (information from own header, .license sibling, one root "
    "REUSE.toml table with closest/aggregate/override, or dep5; LICENSES/ holding exactly the used texts) plus 0-4 injected "
    "defects of known category (licence text removed, unused text, unknown / deprecated / extension-less file in LICENSES/, "
    "copyright or licence left out, unknown identifier used). Variant 0 lints it fault-free; variants 1..2 lint it with a "
    "read-fault set F: EACCES at open, file deleted after enumeration, EIO after k bytes, file replaced by a directory, placed on "
    "files that must be read (the file, or its .license sibling) and - in a third of the runs - on files that must NOT be read "
    "(shadowed by a .license sibling or an override table). Serial and SimForkPool schedules, seeded readdir order, with/without "
    "Git. Non-trivial = a read fault fired or >=1 defect was injected; distinct = distinct (world, fault plan) digests"
)
EXPECTED_PROBES = ["report.read_error.project", "report.read_error.subset", "report.worker_exception", "report.not_a_file",
                   "project.override_not_read", "project.binary_not_read", "report.worker_dep5_reparse"]
ASSUMPTIONS = (
    "clauses (a)-(c) on arbitrary trees are input-quantified and are not decided here; only canonical headers are generated",
    "a licence used only by unreadable files may or may not be listed as unused (the statement does not say)",
    "an unreadable directory is silently skipped by os.walk; not alarmed on (see DESIGN.md 3.C01)",
)

KNOWN_IDS = set(G.VALID + G.DEPRECATED + G.EXCEPTIONS + ["CC-BY-4.0"])  # every SPDX identifier the generator can emit
DEPRECATED = set(G.DEPRECATED)
EXPRS = G.VALID + ["Apache-2.0+", "MIT OR 0BSD", "GPL-3.0-or-later WITH Classpath-exception-2.0",
                   "LicenseRef-Custom", "(MIT AND BSD-3-Clause)", "EUPL-1.2+"]
STYLES = ["python", "c", "html", "cpp", "tex", "haskell", "jinja"]


def ids_of(expr):
    return [t for t in re.findall(r"[A-Za-z0-9][A-Za-z0-9.+-]*", expr) if t not in ("AND", "OR", "WITH")]


def strip_plus(i):
    return i[:-1] if i.endswith("+") else i


def _header(style, holders, exprs):
    cr = [f"SPDX-FileCopyrightText: {h}" for h in holders]
    return G.comment(style, G.header_text(cr, exprs), multi=not G.can_single(style))


def gen_world(rng):
    files, entries, tables, paras = [], [], [], []
    glob_kind = rng.wpick([(5, "none"), (4, "toml"), (2, "dep5")])
    n = rng.randint(3, 9)
    if rng.chance(0.12):
        n = rng.randint(18, 45)  # more covered files than workers (and than 4 x workers): chunks of several files
    for i in range(n):
        d = rng.pick(["", "src", "src/core", "docs", "docs"])
        style = rng.pick(STYLES)
        path = posixpath.join(d, f"f{i}{G.STYLES[style][7]}")
        holder = f"20{10 + i} {rng.pick(G.HOLDERS)}"
        expr = rng.pick(EXPRS)
        kind = rng.wpick([(10, "header"), (3, "dotlicense"), (1, "binary"), (2, "snippet"), (1, "empty-dotlicense")] +
                         ([(2, "override"), (2, "closest"), (1, "aggregate")] if glob_kind == "toml" else []) +
                         ([(3, "dep5")] if glob_kind == "dep5" else []))
        e = {"path": path, "kind": kind, "c": [f"SPDX-FileCopyrightText: {holder}"], "l": [expr], "reads": path}
        body = G.body_for(style)
        if kind == "header":
            files.append({"path": path, "content": _header(style, [holder], [expr]) + "\n\n" + body})
        elif kind == "snippet":
            # information that is only found when the whole file is read: a snippet after the 4 KiB header window,
            # its marker placed on or next to a multiple of 4096 (block boundaries of any chunked reader) half of the time
            expr2 = rng.pick(G.VALID)
            head = _header(style, [holder], [expr]) + "\n\n" + body
            single = G.can_single(style)
            lead = (G.STYLES[style][0] + " ") if single else ""
            k = rng.pick([1, 1, 2, 3])
            off = 4096 * k - rng.randrange(0, 17) if rng.chance(0.6) else 4096 * k + rng.randrange(20, 900)
            pad_len = off - len(head.encode()) - len(lead)
            filler = ("x" * 63 + "\n") * (pad_len // 64) + "y" * (pad_len % 64 - 1) + "\n" if pad_len % 64 else ("x" * 63 + "\n") * (pad_len // 64)
            snippet = "\n".join(lead + t for t in ("SPDX-SnippetBegin", f"SPDX-License-Identifier: {expr2}",
                                                  "SPDX-SnippetCopyrightText: 2022 Snippet Author", "SPDX-SnippetEnd")) + "\n"
            if not single:
                start, _, end = G.STYLES[style][2]
                snippet = start + "\n" + snippet + end + "\n"
                filler = filler[: max(0, len(filler) - len(start) - 1)]
            content = head + filler + snippet
            files.append({"path": path, "content": content})
            e["l"] = [expr, expr2]
            e["marker_offset"] = content.encode().find(b"SPDX-SnippetBegin")
        elif kind == "empty-dotlicense":
            # an existing (here: empty) FILE.license is the only source for FILE: its own header does not count
            files.append({"path": path, "content": _header(style, [holder], [expr]) + "\n\n" + body})
            files.append({"path": path + ".license", "content": ""})
            e["c"], e["l"] = [], []
            e["reads"] = path + ".license"
            e["shadowed"] = path
            e["implied_defect"] = True
        elif kind == "dotlicense":
            # the file itself carries conflicting information that must be ignored
            other = rng.pick(["", _header(style, ["1999 Ignored Person"], ["LicenseRef-MustNotBeSeen"]) + "\n"])
            files.append({"path": path, "content": other + body})
            files.append({"path": path + ".license", "content": f"SPDX-FileCopyrightText: {holder}\nSPDX-License-Identifier: {expr}\n"})
            e["reads"] = path + ".license"
            e["shadowed"] = path
        elif kind == "binary":
            path = posixpath.join(d, f"f{i}.png")
            e["path"] = path
            files.append({"path": path, "content": G.BINARY})
            files.append({"path": path + ".license", "content": f"SPDX-FileCopyrightText: {holder}\nSPDX-License-Identifier: {expr}\n"})
            e["reads"] = path + ".license"
            e["shadowed"] = path
        elif kind == "override":
            other = rng.pick(["", _header(style, ["1999 Ignored Person"], ["LicenseRef-MustNotBeSeen"]) + "\n"])
            files.append({"path": path, "content": other + body})
            tables.append({"path": path, "precedence": "override", "SPDX-FileCopyrightText": holder, "SPDX-License-Identifier": expr})
            e["c"] = [holder]
            e["reads"] = None
            e["shadowed"] = path
        elif kind == "closest":
            files.append({"path": path, "content": body})
            tables.append({"path": path, "precedence": "closest", "SPDX-FileCopyrightText": holder, "SPDX-License-Identifier": expr})
            e["c"] = [holder]
        elif kind == "aggregate":
            expr2 = rng.pick(G.VALID)
            files.append({"path": path, "content": _header(style, [holder], [expr]) + "\n\n" + body})
            tables.append({"path": path, "precedence": "aggregate", "SPDX-FileCopyrightText": "2001 Aggregated Holder", "SPDX-License-Identifier": expr2})
            e["l"] = [expr, expr2]
        elif kind == "dep5":
            files.append({"path": path, "content": body})
            paras.append({"files": path, "copyright": holder, "license": strip_plus(ids_of(expr)[0])})
            e["c"] = [holder]
            e["l"] = [strip_plus(ids_of(expr)[0])]
        entries.append(e)
    if glob_kind == "toml" and rng.chance(0.4):
        # a binary and a text file with the same suffix; the binary one is licensed through REUSE.toml (so it is
        # examined itself), the text one through its own header. Processing order must not matter.
        holder_b, expr_b = "2014 Data Owner", rng.pick(G.VALID)
        first, second = rng.pick([("data/x1.dat", "data/x2.dat"), ("data/x2.dat", "data/x1.dat")])
        files.append({"path": first, "content": G.BINARY})
        tables.append({"path": first, "precedence": rng.pick(["closest", "aggregate"]), "SPDX-FileCopyrightText": holder_b, "SPDX-License-Identifier": expr_b})
        entries.append({"path": first, "kind": "closest", "c": [holder_b], "l": [expr_b], "reads": first})
        holder_t, expr_t = "2013 Text Owner", rng.pick(G.VALID)
        files.append({"path": second, "content": f"# SPDX-FileCopyrightText: {holder_t}\n# SPDX-License-Identifier: {expr_t}\n1;2;3\n"})
        entries.append({"path": second, "kind": "header-plain", "c": [f"SPDX-FileCopyrightText: {holder_t}"], "l": [expr_t], "reads": second})
    if glob_kind == "toml" and rng.chance(0.5):
        # one 'closest' annotation shared by several files: a file with a partial header takes the other half from it,
        # header-less files take everything (visited in listing order by one process, or spread over pool chunks)
        holder, expr = "2015 Shared Holder", rng.pick(G.VALID)
        tables.append({"path": "shared/**", "precedence": "closest", "SPDX-FileCopyrightText": holder, "SPDX-License-Identifier": expr})
        part = rng.pick(["c-only", "l-only"])
        own_holder, own_expr = "2016 Partial Person", rng.pick(G.VALID)
        head = _header("python", [own_holder], []) if part == "c-only" else _header("python", [], [own_expr])
        names = ["shared/a_partial.py"] + [f"shared/{x}.py" for x in rng.sample(["b", "c", "d", "m", "z"], rng.randint(2, 4))]
        if rng.chance(0.5):
            names[0] = "shared/zz_partial.py"
        for nm in names:
            if "partial" in nm:
                files.append({"path": nm, "content": head + "\n\nimport os\n"})
                entries.append({"path": nm, "kind": "shared-partial", "reads": nm,
                                "c": [f"SPDX-FileCopyrightText: {own_holder}"] if part == "c-only" else [holder],
                                "l": [expr] if part == "c-only" else [own_expr]})
            else:
                files.append({"path": nm, "content": "import sys\n"})
                entries.append({"path": nm, "kind": "shared-plain", "reads": nm, "c": [holder], "l": [expr]})
    if glob_kind == "toml" and rng.chance(0.4):
        # a REUSE.toml hierarchy: the nearest file that provides the information wins for 'closest', the topmost
        # 'override' hides the deeper file - whatever the directory is called
        D = rng.pick(["3rdparty", "Docs", "EXTERNAL", ".ci", "Qt", "vendor", "zlib", "A", "+x", "src/0core"])
        used = {strip_plus(i) for e in entries for x in e["l"] for i in ids_of(x)}
        expr_n = rng.pick(G.VALID)
        holder_n, holder_r = "2017 Nested Holder", "2018 Root Holder"
        mode = rng.pick(["closest", "closest", "override", "closest-split"])
        nested_table = {"path": "**", "precedence": "closest", "SPDX-FileCopyrightText": holder_n, "SPDX-License-Identifier": expr_n}
        if mode == "closest-split":
            # the nearer file provides only the licence; the copyright has to come from the root file
            del nested_table["SPDX-FileCopyrightText"]
            tables.append({"path": f"{D}/**", "precedence": "closest", "SPDX-FileCopyrightText": holder_r, "SPDX-License-Identifier": expr_n})
            for nm in rng.sample(["n1.c", "n2.py", "deep/n3.c"], rng.randint(1, 3)):
                files.append({"path": f"{D}/{nm}", "content": "nested content\n"})
                entries.append({"path": f"{D}/{nm}", "kind": "nested-closest", "c": [holder_r], "l": [expr_n], "reads": f"{D}/{nm}"})
        elif mode == "closest":
            spare = [x for x in G.VALID if x not in used and x != expr_n]
            expr_r = rng.pick(spare) if spare else expr_n
            tables.append({"path": f"{D}/**", "precedence": "closest", "SPDX-FileCopyrightText": holder_r, "SPDX-License-Identifier": expr_r})
            for nm in rng.sample(["n1.c", "n2.py", "deep/n3.c"], rng.randint(1, 3)):
                files.append({"path": f"{D}/{nm}", "content": "nested content\n"})
                entries.append({"path": f"{D}/{nm}", "kind": "nested-closest", "c": [holder_n], "l": [expr_n], "reads": f"{D}/{nm}"})
        else:
            expr_r = rng.pick(G.VALID)
            tables.append({"path": f"{D}/**", "precedence": "override", "SPDX-FileCopyrightText": holder_r, "SPDX-License-Identifier": expr_r})
            for nm in rng.sample(["n1.c", "n2.py", "deep/n3.c"], rng.randint(1, 3)):
                files.append({"path": f"{D}/{nm}", "content": "nested content\n"})
                entries.append({"path": f"{D}/{nm}", "kind": "nested-override", "c": [holder_r], "l": [expr_r], "reads": None, "shadowed": f"{D}/{nm}"})
        files.append({"path": f"{D}/REUSE.toml", "content": G.reuse_toml([nested_table])})
    if glob_kind == "toml" and rng.chance(0.3):
        # one annotation with several globs, some matching a proper prefix of what another matches in full
        # (*.js / *.json, *.c / *.cpp): the alternation the tool builds from the set must not depend on its order
        holder_g, expr_g = "2012 Glob Owner", rng.pick(G.VALID)
        pats = rng.sample(["mg/*.js", "mg/*.json", "mg/*.c", "mg/*.cpp", "mg/*.py", "mg/*.pyi", "mg/**/*.c", "mg/**/*.cpp"], rng.randint(3, 6))
        tables.append({"path": pats, "precedence": "closest", "SPDX-FileCopyrightText": holder_g, "SPDX-License-Identifier": expr_g})
        import fnmatch as _fn
        for nm in ["mg/app.js", "mg/package.json", "mg/x.c", "mg/x.cpp", "mg/m.py", "mg/m.pyi", "mg/sub/y.c", "mg/sub/y.cpp"]:
            def _m(pat, path):
                import re as _re
                rx = _re.escape(pat).replace(r"\*\*/", "(?:.*/)?").replace(r"\*\*", ".*").replace(r"\*", "[^/]*")
                return _re.fullmatch(rx, path) is not None
            hit = any(_m(pt, nm) for pt in pats)
            files.append({"path": nm, "content": "plain text, no header\n"})
            if hit:
                entries.append({"path": nm, "kind": "closest", "c": [holder_g], "l": [expr_g], "reads": nm})
            else:
                entries.append({"path": nm, "kind": "plain", "c": [], "l": [], "reads": nm, "implied_defect": True})
    if glob_kind == "toml" and rng.chance(0.3):
        # globs that end in a star next to globs that begin with one (whatever order the set hands them out in, each is
        # translated on its own): '*.png' stays in the root directory, 'vendor2/**' takes the whole tree below
        holder_s, expr_s = "2009 Star Owner", rng.pick(G.VALID)
        pats = rng.sample(["docs2/*", "*.png", "*.mdx", "vendor2/**", "*2.cfg", "img2/*"], rng.randint(3, 6))
        tables.append({"path": pats, "precedence": "closest", "SPDX-FileCopyrightText": holder_s, "SPDX-License-Identifier": expr_s})
        import re as _re2

        def _m2(pat, path):
            rx = _re2.escape(pat).replace(r"\*\*", ".*").replace(r"\*", "[^/]*")
            return _re2.fullmatch(rx, path) is not None
        for nm in ["docs2/guide.txt", "logo2.png", "README2.mdx", "vendor2/a/b.c", "sub2/icon.png", "sub2/NOTES.mdx", "setup2.cfg", "img2/deep/x.txt"]:
            content = G.BINARY if nm.endswith(".png") else "plain text, no header\n"
            files.append({"path": nm, "content": content})
            if any(_m2(pt, nm) for pt in pats):
                entries.append({"path": nm, "kind": "closest", "c": [holder_s], "l": [expr_s], "reads": nm})
            else:
                entries.append({"path": nm, "kind": "plain", "c": [], "l": [], "reads": nm, "implied_defect": True})
    hardlinks = []
    if rng.chance(0.2) and entries:
        # a second name (hard link) for a file whose information lives in its .license companion: the information belongs
        # to the name, so the other name is a covered file without any - wherever it is listed
        src_e = rng.pick(entries)
        expr_h = src_e["l"][0] if src_e["l"] else "MIT"
        first, second = rng.pick([("hl/a_orig.json", "hl/z_copy.json"), ("hl/z_orig.json", "hl/a_copy.json"), ("hl/orig.json", "hl2/copy.json"),
                                  ("orig.json", "hl/copy.json")])
        files.append({"path": first, "content": '{"k": 1}\n'})
        files.append({"path": first + ".license", "content": f"SPDX-FileCopyrightText: 2019 Link Owner\nSPDX-License-Identifier: {expr_h}\n"})
        entries.append({"path": first, "kind": "dotlicense", "c": ["SPDX-FileCopyrightText: 2019 Link Owner"], "l": [expr_h], "reads": first + ".license",
                        "shadowed": first})
        hardlinks.append({"path": second, "target": first})
        entries.append({"path": second, "kind": "hardlink", "c": [], "l": [], "reads": second, "implied_defect": True, "via_link": True})
    many = 0
    if glob_kind == "toml" and rng.chance(0.12):
        # more binary files (by content, not by suffix) than the process may hold descriptors: each is opened, looked
        # at and must be closed again
        many = rng.randint(70, 110)
        expr_m = rng.pick(G.VALID)
        tables.append({"path": "blobs/**", "precedence": "closest", "SPDX-FileCopyrightText": "2011 Blob Owner", "SPDX-License-Identifier": expr_m})
        for k in range(many):
            pth = f"blobs/d{k % 3}/t{k:03d}.tbl"
            files.append({"path": pth, "content": G.BINARY})
            entries.append({"path": pth, "kind": "closest", "c": ["2011 Blob Owner"], "l": [expr_m], "reads": pth})
    if tables:
        files.append({"path": "REUSE.toml", "content": G.reuse_toml(tables)})
    if paras:
        files.append({"path": ".reuse/dep5", "content": G.dep5(paras)})
    lic_files = {}  # identifier -> path
    for e in entries:
        for x in e["l"]:
            for i in ids_of(x):
                i = strip_plus(i)
                lic_files[i] = f"LICENSES/{i}.txt"
    # ---- defects ----------------------------------------------------------------------
    defects = [("no-info", e["path"]) for e in entries if e.get("implied_defect")]
    for _ in range(rng.wpick([(3, 0), (4, 1), (2, 2), (1, 3), (1, 4)])):
        k = rng.pick(["missing-text", "unused-text", "bad-in-licenses", "deprecated", "no-extension", "no-copyright",
                      "no-licence", "no-info", "bad-used", "binary-no-info"])
        header_entries = [e for e in entries if e["kind"] == "header" and not e.get("defect")]
        if k == "missing-text" and lic_files:
            i = rng.pick(sorted(lic_files))
            if lic_files[i]:
                lic_files[i] = None
                defects.append((k, i))
        elif k == "unused-text":
            i = rng.pick([x for x in G.VALID + ["LicenseRef-Other.1"] if x not in lic_files] or ["CC-BY-4.0"])
            if i not in lic_files:
                lic_files[i] = f"LICENSES/{i}.txt"
                defects.append((k, i))
        elif k == "bad-in-licenses" and "Foo-1.0" not in lic_files:
            lic_files["Foo-1.0"] = "LICENSES/Foo-1.0.txt"
            defects.append((k, "Foo-1.0"))
        elif k == "deprecated" and header_entries:
            e = rng.pick(header_entries)
            dep = rng.pick(G.DEPRECATED)
            e["l"] = [dep]
            e["defect"] = k
            lic_files.setdefault(dep, f"LICENSES/{dep}.txt")
            defects.append((k, dep))
        elif k == "no-extension":
            cands = [i for i, p in sorted(lic_files.items()) if p and p.endswith(".txt") and i in KNOWN_IDS]
            if cands:
                i = rng.pick(cands)
                lic_files[i] = f"LICENSES/{i}"
                defects.append((k, i))
        elif k in ("no-copyright", "no-licence", "no-info") and header_entries:
            e = rng.pick(header_entries)
            e["defect"] = k
            if k != "no-licence":
                e["c"] = []
            if k != "no-copyright":
                e["l"] = []
            defects.append((k, e["path"]))
        elif k == "binary-no-info" and not any(e["path"] == "docs/logo.png" for e in entries):
            files.append({"path": "docs/logo.png", "content": G.BINARY})
            entries.append({"path": "docs/logo.png", "kind": "plain-binary", "c": [], "l": [], "reads": "docs/logo.png"})
            defects.append((k, "docs/logo.png"))
        elif k == "bad-used" and header_entries:
            e = rng.pick(header_entries)
            e["defect"] = k
            e["l"] = ["Foo-2.0"]
            defects.append((k, e["path"]))
    # re-render headers of entries whose declared information changed
    by_path = {f["path"]: f for f in files}
    for e in entries:
        if e.get("defect") and e["kind"] == "header":
            style = next(s for s in STYLES if e["path"].endswith(G.STYLES[s][7]))
            holders = [c.split(": ", 1)[1] for c in e["c"]]
            text = G.header_text([f"SPDX-FileCopyrightText: {h}" for h in holders], e["l"])
            head = (G.comment(style, text, multi=not G.can_single(style)) + "\n\n") if text else ""
            by_path[e["path"]]["content"] = head + G.body_for(style)
    # licence texts that are no longer used by anybody (because a defect changed a header) are dropped again,
    # unless they are themselves a defect
    used = {strip_plus(i) for e in entries for x in e["l"] for i in ids_of(x)}
    keep = {d[1] for d in defects if d[0] in ("unused-text", "bad-in-licenses")}
    for i in list(lic_files):
        if i not in used and i not in keep:
            del lic_files[i]
    for i, p in sorted(lic_files.items()):
        if p:
            files.append({"path": p, "content": f"text of {i}\n"})
    world = {"files": files}
    if hardlinks:
        world["hardlinks"] = hardlinks
    if many:
        world["nofile"] = rng.pick([40, 48, 64])
    if rng.chance(0.35):
        # symlinks are never covered files: to a file, to a directory, dangling
        links = [{"path": "docs/latest", "target": "no-such-target"}, {"path": "src/linkdir", "target": "../docs"},
                 {"path": "linkfile.py", "target": entries[0]["path"]}, {"path": "src/loop", "target": "loop"}]
        world["symlinks"] = rng.sample(links, rng.randint(1, 3))
    ignored = []
    if rng.chance(0.4):
        world["git"] = {"commit": True}
        if rng.chance(0.5):
            files.append({"path": ".gitignore", "content": "build/\n*.tmp\n"})
            files.append({"path": "build/gen.py", "content": "x = 1\n"})
            files.append({"path": "scratch.tmp", "content": "tmp\n"})
            entries.append({"path": ".gitignore", "kind": "plain", "c": [], "l": [], "reads": ".gitignore"})
            defects.append(("no-info", ".gitignore"))
            ignored = ["build/gen.py", "scratch.tmp"]
            if rng.chance(0.5):
                # several ignored directories next to each other (whatever order the file system lists them in)
                files[-3]["content"] = "build/\nout*/\n*.tmp\n"
                for k in range(1, rng.randint(3, 5)):
                    files.append({"path": f"out{k}/product.o", "content": f"object {k}\n"})
                    ignored.append(f"out{k}/product.o")
            if rng.chance(0.3):
                # ignore rules from the user's own Git configuration (core.excludesFile), not from the tree
                world["home"] = [{"path": ".gitconfig", "content": "[core]\n\texcludesFile = ~/.gitignore_global\n"},
                                 {"path": ".gitignore_global", "content": "*.scratch\n.idea/\n"}]
                files.append({"path": "src/notes.scratch", "content": "notes\n"})
                files.append({"path": ".idea/workspace.xml", "content": "<xml/>\n"})
                world["git"]["use_home_config"] = True
                ignored += ["src/notes.scratch", ".idea/workspace.xml"]
            if rng.chance(0.4):
                # a submodule (by .gitmodules) whose files carry nothing: not covered, whatever the working directory
                files.append({"path": ".gitmodules", "content": '[submodule "lib"]\n\tpath = vendor/lib\n\turl = https://example.org/lib.git\n'})
                files.append({"path": "vendor/lib/code.c", "content": "int unlicensed;\n"})
                entries.append({"path": ".gitmodules", "kind": "plain", "c": [], "l": [], "reads": ".gitmodules"})
                defects.append(("no-info", ".gitmodules"))
            if rng.chance(0.6):
                # tracked although it matches an ignore pattern (git add -f, or ignored after it was committed):
                # Git does not ignore tracked files, so it is a covered file like any other
                files.append({"path": "legacy.tmp", "content": "tracked despite the ignore pattern\n"})
                entries.append({"path": "legacy.tmp", "kind": "plain", "c": [], "l": [], "reads": "legacy.tmp"})
                defects.append(("no-info", "legacy.tmp"))
                world["git"]["force_add"] = ["legacy.tmp"]
    if rng.chance(0.2):
        # Meson subprojects are not covered unless asked for
        for name in rng.sample(["liba", "libb", "libc"], rng.randint(2, 3)):
            files.append({"path": f"subprojects/{name}/code.c", "content": "int unlicensed;\n"})
    return world, entries, lic_files, defects, ignored


def gen_case(seed, tier, index=0):
    rng = Rng(seed, "c01")
    world, entries, lic_files, defects, ignored = gen_world(rng)
    sizes = {f["path"]: len(f["content"].encode("utf-8", "surrogateescape")) for f in world["files"]}

    subdirs = sorted({posixpath.dirname(f["path"]).split("/")[0] for f in world["files"]
                      if "/" in f["path"] and not f["path"].startswith((".", "-", "LICENSES", "build", "vendor", "out", "subprojects"))})

    above = False
    if world.get("git") and rng.chance(0.2):
        # the project is a sub-directory of a larger Git work tree: Git's ignore rules still apply to it, and the root has
        # to be named (Git's own top level is the directory above)
        world["git"]["above"] = above = True

    def env():
        e = {"readdir_key": rng.randrange(1 << 30) if rng.chance(0.7) else 0}
        w = rng.randrange(10)
        if w == 0 and subdirs:
            e["cwd"], e["root_opt"] = rng.pick(subdirs), ["--root", ".."]
        elif w == 1:
            e["cwd"], e["root_opt"] = "..", ["--root", "p"]
        elif w == 2 and subdirs and world.get("git") and not above:
            e["cwd"], e["root_opt"] = rng.pick(subdirs), []  # Git finds the root
        elif above:
            e["root_opt"] = ["--root", rng.pick([".", "$ROOT"])]
        if rng.chance(0.2):
            e["short_io"] = rng.pick([3, 64])
        if world.get("nofile"):
            e["nofile"] = world["nofile"]
        ro = e.pop("root_opt", [])
        if rng.chance(0.5):
            e["argv"] = ro + ["--no-multiprocessing", "lint", "--json"]
        else:
            e["argv"] = ro + ["lint", "--json"]
            e["pool"] = {"n": rng.pick([1, 2, 3, 4, 8]), "key": rng.randrange(1 << 30)}
            if rng.chance(0.3):
                e["pool"]["chunk"] = rng.randint(1, 4)
        return e

    variants = [{"hashseed": rng.randrange(8), "steps": [env()], "kind": "clean"}]
    for _ in range(rng.randint(1, 2)):
        st = env()
        serial = "pool" not in st
        faults, muts, F = [], [], []
        cands = [e for e in entries]
        rng.shuffle(cands)
        for e in cands[: rng.randint(1, 3)]:
            target = e["reads"]
            must_not = rng.chance(0.33) and e.get("shadowed")
            if must_not:
                target = e["shadowed"]
            if target is None:
                continue
            kind = rng.pick(["EACCES-open", "EIO-read", "EISDIR-open"] if must_not else
                            ["EACCES-open", "EACCES-open", "vanish", "EIO-read", "to_dir", "ENOENT-open"])
            meta = {"entry": e["path"], "kind": kind, "expect": "none" if must_not else "read-error"}
            if kind == "EACCES-open":
                faults.append(dict(meta, op="open-r", path=target, errno="EACCES"))
            elif kind == "ENOENT-open":
                faults.append(dict(meta, op="open-r", path=target, errno="ENOENT", nth=rng.pick([1, 2])))
            elif kind == "EISDIR-open":
                faults.append(dict(meta, op="open-r", path=target, errno="EISDIR"))
            elif kind == "EIO-read":
                k = rng.randrange(0, max(1, min(sizes.get(target, 1), 60)))
                faults.append(dict(meta, op="read", path=target, errno="EIO", after=k))
            elif kind in ("vanish", "to_dir"):
                do = {"op": "delete" if kind == "vanish" else "to_dir", "path": target}
                if target != e["path"]:
                    # the sibling vanishes: the file itself is then read instead - not a read error; skip
                    continue
                if serial:
                    muts.append(dict(meta, at={"op": "open-r", "path": target, "nth": 1}, do=do))
                else:
                    muts.append(dict(meta, at=rng.pick([{"point": "after_enum"}, {"point": "before_release", "i": 0}]), do=do))
            F.append(e["path"])
        st["faults"], st["mutations"] = faults, muts
        steps = [st]
        if rng.chance(0.25) and _F_of(st)[0]:
            # the same faults against lint-file on the faulted files plus one healthy file
            names = sorted(set(_F_of(st)[0]) | {entries[0]["path"]})
            lf = dict(st, argv=[a for a in st["argv"] if a not in ("lint", "--json")] + ["lint-file"] + names)
            if not any(m for m in muts) and st.get("cwd", ".") == ".":
                steps.append(lf)
        variants.append({"hashseed": rng.randrange(8), "steps": steps, "kind": "faulty"})
    return {"prop": PROP, "seed": seed, "world": world, "entries": entries, "lic_files": lic_files, "defects": defects,
            "ignored": ignored, "variants": variants}


def _F_of(step, rec=None):
    """(files expected to be read errors, their fault kinds, files faulted where no effect is expected) - derived
    from the step's own fault plan, so that it stays true when the shrinker drops faults. With a record, only
    faults and mutations that actually fired count: a read that did not fail must give a normal entry."""
    items = list(step.get("faults") or []) + list(step.get("mutations") or [])
    if rec is not None:
        fired = {k.split("|", 1)[1] for k in rec.get("fired", []) if "|" in k}
        items = [f for f in items if (f.get("path") or f.get("do", {}).get("path")) in fired]
    F = sorted({f["entry"] for f in items if f.get("expect") == "read-error"})
    kinds = sorted({f["kind"] for f in items if f.get("expect") == "read-error"})
    ne = sorted({f["entry"] for f in items if f.get("expect") == "none"})
    return F, kinds, ne


# ---- the model --------------------------------------------------------------------------------
def expected(case, F_paths):
    """What lint must report for this abstract world when the files in F_paths cannot be read."""
    present = _present(case)
    ents = [e for e in case["entries"] if e["path"] in present]
    for e in ents:
        if e["kind"] in ("dotlicense", "binary") and e["reads"] not in present and e["kind"] == "dotlicense":
            e = dict(e)
    readable = [e for e in ents if e["path"] not in F_paths]
    lic_files = {i: p for i, p in case["lic_files"].items() if p and p in present}
    provided = set(lic_files)
    exp = {"files": sorted(e["path"] for e in readable), "read_errors": sorted(e["path"] for e in ents if e["path"] in F_paths)}
    exp["missing_copyright_info"] = sorted(e["path"] for e in readable if not e["c"])
    exp["missing_licensing_info"] = sorted(e["path"] for e in readable if not e["l"])
    missing, bad, used = {}, {}, set()
    for e in readable:
        for x in e["l"]:
            for i in ids_of(x):
                used.add(i)
                alts = {i, strip_plus(i)}
                if not alts & provided:
                    missing.setdefault(i, set()).add(e["path"])
                if not alts & (KNOWN_IDS | {p for p in provided if p.startswith("LicenseRef-")}):
                    bad.setdefault(i, set()).add(e["path"])
    for i, p in lic_files.items():
        if i not in KNOWN_IDS and not i.startswith("LicenseRef-"):
            bad.setdefault(i, set()).add(p)
    exp["missing_licenses"] = {k: sorted(v) for k, v in sorted(missing.items())}
    exp["bad_licenses"] = {k: sorted(v) for k, v in sorted(bad.items())}
    exp["deprecated_licenses"] = sorted(provided & DEPRECATED)
    exp["unused_licenses"] = sorted(i for i in provided if i not in used and (i + "+") not in used)
    exp["licenses_without_extension"] = {i: p for i, p in sorted(lic_files.items()) if "." not in posixpath.basename(p)[len(i):] and posixpath.basename(p) == i}
    # relaxation: a licence used only by unreadable files may or may not be listed as unused
    used_all = set()
    for e in ents:
        for x in e["l"]:
            used_all.update(ids_of(x))
    exp["_unused_optional"] = sorted(i for i in exp["unused_licenses"] if i in used_all or (i + "+") in used_all)
    exp["compliant"] = not any(exp[k] for k in ("read_errors", "missing_copyright_info", "missing_licensing_info", "missing_licenses",
                                                 "bad_licenses", "deprecated_licenses", "unused_licenses", "licenses_without_extension"))
    return exp


CATS = ["read_errors", "missing_copyright_info", "missing_licensing_info", "missing_licenses", "bad_licenses",
        "deprecated_licenses", "unused_licenses", "licenses_without_extension"]


def observed(rec, step=None):
    try:
        d = json.loads(rec.get("stdout", ""))
    except ValueError:
        return None
    argv = (step or {}).get("argv", [])
    spelled = argv[argv.index("--root") + 1] if "--root" in argv else None
    if spelled is None and (step or {}).get("cwd", ".") != ".":
        spelled = ".."  # Git's answer, relative to the sub-directory
    nc = d["non_compliant"]
    def cp(p):
        # without --root and without Git the root is the absolute cwd, and reported paths follow its spelling
        if spelled and p.startswith(spelled + "/"):
            return p[len(spelled) + 1:]
        p = posixpath.normpath(p)
        return p[len("$B/p/"):] if p.startswith("$B/p/") else p

    ob = {"files": sorted(f["path"] for f in d["files"])}
    for k in ("read_errors", "missing_copyright_info", "missing_licensing_info"):
        ob[k] = sorted(cp(p) for p in nc[k])
    for k in ("deprecated_licenses", "unused_licenses"):
        ob[k] = sorted(nc[k])
    for k in ("missing_licenses", "bad_licenses"):
        ob[k] = {a: sorted(cp(p) for p in b) for a, b in sorted(nc[k].items())}
    ob["licenses_without_extension"] = {a: cp(b) for a, b in sorted(nc["licenses_without_extension"].items())}
    ob["compliant"] = d["summary"]["compliant"]
    ob["summary"] = d["summary"]
    return ob


SHRINK_CONTENT = False  # the model is tied to the rendered headers


def _present(case):
    present = {f["path"] for f in case["world"]["files"]}
    return present | {l["path"] for l in case["world"].get("hardlinks") or [] if l["target"] in present}


def _valid(case):
    present = _present(case)
    for e in case["entries"]:
        if e["path"] not in present:
            continue
        if e["reads"] is not None and e["reads"] not in present:
            return False
        if e["kind"] in ("override", "closest", "aggregate", "shared-partial", "shared-plain", "nested-closest", "nested-override") and "REUSE.toml" not in present:
            return False
        if e["kind"].startswith("nested-") and not any(p.endswith("/REUSE.toml") and e["path"].startswith(p[:-len("REUSE.toml")]) for p in present):
            return False
        if e["kind"] == "dep5" and ".reuse/dep5" not in present:
            return False
    if case.get("ignored") and (".gitignore" not in present or not case["world"].get("git")):
        return False
    if any(p in present for p in ("src/notes.scratch", ".idea/workspace.xml")):
        g = case["world"].get("git") or {}
        if not g.get("use_home_config") or len(case["world"].get("home") or []) < 2:
            return False
    return True


def oracle(case, results):
    vs = []
    if not _valid(case):
        return vs
    for vi, var in enumerate(case["variants"]):
        recs = results[vi]["records"]
        rec = recs[0]
        F_list, kinds, no_effect = _F_of(var["steps"][0], rec)
        tag = "+".join(kinds or ["none"])
        if rec.get("exc") or rec.get("timeout"):
            vs.append({"sig": f"C01/lint-crashed/{(rec.get('exc') or {}).get('type', 'timeout')}/{tag}",
                       "detail": (rec.get("exc") or {}).get("tb", "")[-800:]})
            continue
        F_paths = set(F_list)
        exp = expected(case, F_paths)
        ob = observed(rec, var["steps"][0])
        if ob is None:
            vs.append({"sig": f"C01/no-json/{tag}", "detail": f"exit={rec.get('exit')} stdout={rec.get('stdout', '')[:300]} stderr={rec.get('stderr', '')[-300:]}"})
            continue
        for k in ["files"] + CATS:
            e, o = exp[k], ob[k]
            if k == "unused_licenses":
                opt = set(exp["_unused_optional"])
                e = [x for x in e if x not in opt]
                o = [x for x in o if x not in opt]
            if e != o:
                direction = "not-reported" if _lacks(e, o) else "extra"
                vs.append({"sig": f"C01/{k}/{direction}/{tag if k in ('read_errors', 'files') else 'x'}",
                           "detail": f"variant {vi} ({var['kind']}): {k}: expected {json.dumps(e)[:400]} observed {json.dumps(o)[:400]}; "
                                     f"F={F_list} no_effect={no_effect} defects={case['defects']} fired={rec.get('fired')}"})
        noncompliant_expected = not exp["compliant"] or bool(set(ob["unused_licenses"]) & set(exp["_unused_optional"]))
        want_exit = 1 if noncompliant_expected else 0
        if rec.get("exit") != want_exit or ob["compliant"] != (want_exit == 0):
            vs.append({"sig": f"C01/exit-status/{tag}", "detail": f"variant {vi}: exit={rec.get('exit')} summary.compliant={ob['compliant']} expected exit {want_exit}; F={F_list} defects={case['defects']}"})
        s = ob["summary"]
        if s.get("files_total") != len(ob["files"]):
            vs.append({"sig": "C01/summary-count", "detail": f"files_total={s.get('files_total')} but {len(ob['files'])} file entries"})
        # lint-file with the same faults: read errors named, exit 1
        if len(recs) > 1:
            r2 = recs[1]
            present = {f["path"] for f in case["world"]["files"]}
            named = set(var["steps"][1]["argv"][var["steps"][1]["argv"].index("lint-file") + 1:])
            if r2.get("exc"):
                vs.append({"sig": f"C01/lint-file/crashed/{r2['exc']['type']}", "detail": r2["exc"]["tb"][-600:]})
            elif named <= present:
                F2 = set(_F_of(var["steps"][1], r2)[0]) & named
                lines = [l[len("$B/p/"):] if l.startswith("$B/p/") else l for l in r2.get("stdout", "").splitlines()]
                for p in sorted(F2):
                    if f"{p}: read error" not in lines:
                        vs.append({"sig": f"C01/lint-file/read-error-not-reported/{tag}", "detail": f"{p}; stdout={r2.get('stdout', '')[:400]} exit={r2.get('exit')}"})
                if F2 and r2.get("exit") != 1:
                    vs.append({"sig": f"C01/lint-file/exit-status/{tag}", "detail": f"exit={r2.get('exit')} with read errors {sorted(F2)}"})
    return vs


def _lacks(e, o):
    if isinstance(e, dict):
        return any(k not in o or set(v if isinstance(v, list) else [v]) - set(o[k] if isinstance(o[k], list) else [o[k]]) for k, v in e.items())
    return bool(set(e) - set(o))


def account(case, results, cov):
    w = digest(case["world"])
    for vi, var in enumerate(case["variants"]):
        rec = results[vi]["records"][0]
        fired = [k for k in rec.get("fired", []) if not k.startswith("short")]
        if fired or case["defects"]:
            cov.nontrivial.add((w, digest(var["steps"])))
        for f in list(var["steps"][0].get("faults") or []) + list(var["steps"][0].get("mutations") or []):
            cov.bump(("read_fault." if f.get("expect") == "read-error" else "must_not_read_fault.") + f.get("kind", "?"))
    for d in case["defects"]:
        cov.bump("defect." + d[0])
    cov.bump("worlds_without_defect", 0 if case["defects"] else 1)
    if len(cov.samples) < 3 and case["defects"]:
        cov.samples.append({"seed": case["seed"], "defects": case["defects"],
                            "entries": [{k: e[k] for k in ("path", "kind", "c", "l", "reads")} for e in case["entries"]][:8],
                            "variants": [{"kind": v["kind"], "argv": v["steps"][0]["argv"], "faults": v["steps"][0].get("faults"), "mutations": v["steps"][0].get("mutations"),
                                          "pool": v["steps"][0].get("pool")} for v in case["variants"]]})
