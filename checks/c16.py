"""C16 - malformed input and unreadable files never crash a command.

Fault facet: read faults on covered files and configuration files, enumeration errors,
vanishing files and directories, under serial and pool schedules. Input facet (workload, said
plainly): REUSE.toml key x TOML type table (swept completely), broken TOML/dep5, invalid
UTF-8, conflicting configuration, weird bytes in covered files.
"""
import json
import posixpath

from rsim import gen as G
from rsim.prf import Rng, digest

PROP = "C16"
LEVEL = "exploration"
TIERS = {
    "quick": {"cases": 600, "budget_s": 150, "batch": 64},
    "thorough": {"cases": 5000, "budget_s": 900, "batch": 64},
}
RULE = (
    "prelude: the complete table REUSE.toml key {version, annotations, path, precedence, SPDX-FileCopyrightText, "
    "SPDX-License-Identifier} x TOML type {string, integer, float, boolean, datetime, array, mixed array, empty array, inline "
    "table, table, array of tables} (66 worlds), each run through lint --json, spdx, lint-file, annotate, download --all, "
    "convert-dep5. Then seeded cases from three families: broken configuration (TOML/dep5 syntax, invalid UTF-8, both files, "
    "unparseable expressions, nested REUSE.toml), weird covered files (NULs, invalid UTF-8, 64 KiB lines, snippet marker past 4 "
    "KiB, CR-only), and fault plans (EACCES/ENOENT/EIO/EISDIR on covered files; EACCES or deletion of REUSE.toml / dep5 between "
    "discovery and parse; dep5 unreadable only inside pool workers; scandir errors; directories deleted during the walk) under "
    "serial and SimForkPool schedules. Every command is a fresh world. Non-trivial = a fault fired or the configuration / a covered "
    "file is malformed; distinct = distinct (world, step) digests"
)
EXPECTED_PROBES = ["common.parse_error_usage", "common.conflict_or_oserror", "report.read_error.project", "report.read_error.subset",
                   "report.worker_exception", "extract.unparseable_expression", "extract.snippet_whole_file"]
ASSUMPTIONS = (
    "I/O faults on a file the user names to annotate are outside the statement and are not injected",
    "whether a wrong-typed but syntactically valid value counts as a broken configuration is not settled by the statement: "
    "for those only 'no traceback, and if exit 2 then the file is named' is required",
    "a command that outlives the 40 s watchdog is re-executed with a 300 s budget; only if it is still running then is that a violation",
)
SHRINK_CONTENT = True

TYPES = {
    "string": '"text"', "integer": "1", "float": "1.5", "boolean": "true", "datetime": "1979-05-27T07:32:00Z",
    "array": '["a", "b"]', "mixed-array": '[1, "a"]', "mixed-array-late": '["src/**", "doc/**", "po/**", "tests/**", true]',
    "empty-array": "[]", "inline-table": "{ a = 1 }",
    "table": None, "array-of-tables": None,
}
KEYS = ["version", "annotations", "path", "precedence", "SPDX-FileCopyrightText", "SPDX-License-Identifier"]
BASE_ANN = [("path", '"**"'), ("precedence", '"aggregate"'), ("SPDX-FileCopyrightText", '"2020 Jane Doe"'), ("SPDX-License-Identifier", '"MIT"')]


def toml_variant(key, typ):
    def k(x):
        return x if x.replace("-", "").isalnum() and "-" not in x else f'"{x}"'
    top = []
    ann = list(BASE_ANN)
    tail = ""
    if key == "version":
        if TYPES[typ] is not None:
            top.append(f"version = {TYPES[typ]}")
        elif typ == "table":
            tail = "\n[version]\na = 1\n"
        else:
            tail = "\n[[version]]\na = 1\n"
    else:
        top.append("version = 1")
    if key == "annotations":
        if TYPES[typ] is not None:
            return "\n".join(top) + f"\nannotations = {TYPES[typ]}\n"
        if typ == "table":
            return "\n".join(top) + '\n\n[annotations]\npath = "**"\nSPDX-License-Identifier = "MIT"\n'
        return "\n".join(top) + "\n\n[[annotations]]\n" + "\n".join(f"{k(a)} = {b}" for a, b in ann) + "\n"
    lines = []
    for a, b in ann:
        if a == key:
            if TYPES[typ] is not None:
                lines.append(f"{k(a)} = {TYPES[typ]}")
            elif typ == "table":
                tail += f"\n[annotations.{k(a)}]\na = 1\n"
            else:
                tail += f"\n[[annotations.{k(a)}]]\na = 1\n"
        else:
            lines.append(f"{k(a)} = {b}")
    return "\n".join(top) + "\n\n[[annotations]]\n" + "\n".join(lines) + "\n" + tail


def _base_files(rng=None):
    return [
        {"path": "src/a.py", "content": "# SPDX-FileCopyrightText: 2020 Jane Doe\n# SPDX-License-Identifier: MIT\nprint(1)\n"},
        {"path": "src/b.c", "content": "int x;\n"},
        {"path": "docs/c.md", "content": "<!--\nSPDX-FileCopyrightText: 2021 John\nSPDX-License-Identifier: CC0-1.0\n-->\ntext\n"},
        {"path": "LICENSES/MIT.txt", "content": "MIT\n"},
        {"path": "LICENSES/CC0-1.0.txt", "content": "CC0\n"},
    ]


COMMANDS = [
    ["lint", "--json"], ["lint"], ["lint", "--lines"], ["lint", "--quiet"], ["spdx"],
    ["spdx", "--add-license-concluded", "--creator-organization", "Org"],
    ["lint-file", "src/a.py", "src/b.c"], ["spdx", "-o", "out.spdx"], ["download", "--all"], ["convert-dep5"], ["supported-licenses"],
    ["annotate", "-c", "Jane", "-l", "MIT", "src/b.c"], ["annotate", "-c", "Jane", "-l", "MIT", "-r", "src"],
    ["annotate", "--contributor", "Bob", "--skip-unrecognised", "-r", "."],
]
READONLY = COMMANDS[:8]


GLOBAL_FLAGS = ["--debug", "--suppress-deprecation", "--include-submodules", "--include-meson-subprojects"]


def _steps_for(rng, cmds, pool_p=0.4, extra=None):
    out = []
    for c in cmds:
        st = dict(extra or {})
        if rng is not None and rng.chance(0.3):
            # global options: --debug runs every debug formatting path over the same weird input
            c = rng.sample(GLOBAL_FLAGS, rng.randint(1, 2)) + list(c)
        name = next((x for x in c if not x.startswith("--")), c[0])
        serial = rng is None or not rng.chance(pool_p) or name in ("annotate", "convert-dep5", "supported-licenses")
        if serial and name != "download":
            st["argv"] = ["--no-multiprocessing"] + list(c)
        else:
            st["argv"] = list(c)
            st["pool"] = {"n": rng.pick([1, 2, 3, 4]) if rng else 2, "key": rng.randrange(1 << 30) if rng else 1}
        out.append(st)
    return out


def prelude_cases(tier, verif_seed):
    cases = []
    cmds = [["lint", "--json"], ["spdx"], ["lint-file", "src/a.py"], ["annotate", "-c", "Jane", "-l", "MIT", "src/b.c"],
            ["download", "--all"], ["convert-dep5"]]
    n = 0
    for key in KEYS:
        for typ in TYPES:
            files = _base_files() + [{"path": "REUSE.toml", "content": toml_variant(key, typ)}]
            variants = [{"hashseed": (n + i) % 8, "steps": [st]} for i, st in enumerate(_steps_for(None, cmds))]
            if typ.startswith("mixed-array"):
                # the members of an array end up in a set: which one a validator meets first follows the hash seed
                variants += [{"hashseed": h, "steps": _steps_for(None, [["lint", "--json"]])} for h in range(8)]
            world = {"files": files}
            if n % 4 == 1:
                world["root_name"] = ["proj{2024}", "{}", "100%s", "{0}"][(n // 4) % 4]
            cases.append({"prop": PROP, "seed": 10_000 + n, "world": world, "family": "toml-type",
                          "trigger": f"toml:{key}:{typ}", "config": ["REUSE.toml"], "must_be_2": False, "variants": variants})
            n += 1
    return cases


BROKEN = [
    ("toml-syntax", "REUSE.toml", 'version = 1\n[[annotations]\npath = "**"\n'),
    ("toml-syntax-unterminated", "REUSE.toml", 'version = 1\n[[annotations]]\npath = "**\n'),
    ("toml-duplicate-key", "REUSE.toml", 'version = 1\nversion = 2\n'),
    ("toml-duplicate-key-in-table", "REUSE.toml", 'version = 1\n[[annotations]]\npath = "a"\npath = "b"\nSPDX-License-Identifier = "MIT"\n'),
    ("toml-duplicate-key-inline", "REUSE.toml", 'version = 1\nannotations = [{path = "a", path = "b", SPDX-License-Identifier = "MIT"}]\n'),
    ("toml-key-redefined-as-table", "REUSE.toml", 'version = 1\n[extra]\nb = 1\n[extra.b]\nc = 2\n'),
    ("toml-invalid-utf8", "REUSE.toml", 'version = 1\n[[annotations]]\npath = "\udcff\udcfe"\nSPDX-License-Identifier = "MIT"\n'),
    ("toml-nul", "REUSE.toml", 'version = 1\x00\n'),
    ("toml-empty", "REUSE.toml", ""),
    ("toml-bad-expression", "REUSE.toml", 'version = 1\n[[annotations]]\npath = "**"\nSPDX-License-Identifier = "MIT AND AND"\n'),
    ("toml-odd-expression-1", "REUSE.toml", 'version = 1\n[[annotations]]\npath = "**"\nSPDX-License-Identifier = "( ) MIT"\n'),
    ("toml-odd-expression-2", "REUSE.toml", 'version = 1\n[[annotations]]\npath = "**"\nSPDX-License-Identifier = "( OR + mit + GPL-2.0+"\n'),
    ("toml-odd-expression-3", "REUSE.toml", 'version = 1\n[[annotations]]\npath = "**"\nSPDX-License-Identifier = ["MIT", "WITH", ")("]\n'),
    ("dep5-odd-expression", ".reuse/dep5", "Format: https://www.debian.org/doc/packaging-manuals/copyright-format/1.0/\n\nFiles: *\nCopyright: 2020 X\nLicense: ( ) MIT\n"),
    ("toml-bad-precedence", "REUSE.toml", 'version = 1\n[[annotations]]\npath = "**"\nprecedence = "sideways"\n'),
    ("toml-missing-path", "REUSE.toml", 'version = 1\n[[annotations]]\nSPDX-License-Identifier = "MIT"\n'),
    ("toml-nested-broken", "src/REUSE.toml", 'version = 1\n[[annotations]\n'),
    ("toml-nested-invalid-utf8", "docs/REUSE.toml", "version = 1\n# \udce9\n"),
    ("dep5-syntax", ".reuse/dep5", "Format: https://www.debian.org/doc/packaging-manuals/copyright-format/1.0/\n\nFiles: *\nCopyright 2020 missing colon\nLicense: MIT\n"),
    ("dep5-no-header", ".reuse/dep5", "Files: *\nCopyright: 2020 X\nLicense: MIT\n"),
    ("dep5-garbage", ".reuse/dep5", "\x00\x01\x02 garbage \udcff\n"),
    ("dep5-invalid-utf8", ".reuse/dep5", "Format: https://www.debian.org/doc/packaging-manuals/copyright-format/1.0/\n\nFiles: *\nCopyright: 2020 \udcff\udcfe\nLicense: MIT\n"),
    ("dep5-empty", ".reuse/dep5", ""),
    ("dep5-bad-expression", ".reuse/dep5", "Format: https://www.debian.org/doc/packaging-manuals/copyright-format/1.0/\n\nFiles: *\nCopyright: 2020 X\nLicense: MIT AND AND\n"),
    ("dep5-missing-license", ".reuse/dep5", "Format: https://www.debian.org/doc/packaging-manuals/copyright-format/1.0/\n\nFiles: *\nCopyright: 2020 X\n"),
]
# syntactically broken / undecodable / conflicting: must be exit 2 and name the file
MUST_BE_2 = {"toml-syntax", "toml-syntax-unterminated", "toml-duplicate-key", "toml-duplicate-key-in-table", "toml-duplicate-key-inline",
             "toml-key-redefined-as-table", "toml-invalid-utf8", "toml-nested-broken",
             "toml-nested-invalid-utf8", "dep5-syntax", "dep5-garbage", "dep5-invalid-utf8", "conflict", "conflict-nested"}

WEIRD = [
    ("nul-bytes", "src/w.py", "# SPDX-License-Identifier: MIT\n\x00\x00\x00 binary-ish\n"),
    ("invalid-utf8", "src/w.py", "# SPDX-FileCopyrightText: 2020 J\udcff\udcfe\n# SPDX-License-Identifier: MIT\n"),
    ("latin1", "src/w.c", "/* Copyright 2020 Andr\udce9 */\n/* SPDX-License-Identifier: MIT */\n"),
    ("long-line", "src/w.py", "# SPDX-License-Identifier: MIT\n# Copyright 2020 " + "x" * 65000 + "\n"),
    ("long-line-no-newline", "src/w.js", "// SPDX-License-Identifier: MIT " + "*/" * 20000),
    ("snippet-past-4k", "src/w.py", "# SPDX-License-Identifier: MIT\n" + "pad\n" * 2000 + "# SPDX-SnippetBegin\n# SPDX-License-Identifier: 0BSD AND\n# SPDX-SnippetEnd\n"),
    ("cr-only", "src/w.py", "# SPDX-FileCopyrightText: 2020 J\r# SPDX-License-Identifier: MIT\rx = 1\r"),
    ("bom", "src/w.py", "﻿# SPDX-FileCopyrightText: 2020 J\n# SPDX-License-Identifier: MIT\n"),
    ("utf16", "src/w.txt", "\udcff\udcfeS\x00P\x00D\x00X\x00-\x00L\x00i\x00c\x00"),
    ("only-nul", "src/w.bin", "\x00" * 5000),
    ("odd-expr-1", "src/w.py", "# SPDX-License-Identifier: ( ) MIT\n# SPDX-FileCopyrightText: 2020 J\n"),
    ("odd-expr-2", "src/w.c", "/* SPDX-License-Identifier: ( OR + mit + GPL-2.0+ */\n"),
    ("odd-expr-3", "src/w.py", "# SPDX-License-Identifier: MIT WITH\n# SPDX-License-Identifier: )(\n# SPDX-License-Identifier: +\n"),
    ("licenseref-not-utf8", "LICENSES/LicenseRef-Odd.txt", "licence text in latin-1: caf\udce9 \udcff\udcfe\n"),
    ("gitmodules-empty-path", ".gitmodules", '[submodule "x"]\n\tpath =\n\turl = https://example.org/x.git\n'),
    ("gitmodules-no-value", ".gitmodules", '[submodule "y"]\n\tpath\n'),
    ("gitmodules-garbage", ".gitmodules", '[submodule "z\n\tpath = \udcff\x00\n[[[\n'),
    ("unparseable-expr", "src/w.py", "# SPDX-License-Identifier: MIT OR OR 0BSD\n# SPDX-FileCopyrightText: 2020 J\n"),
    ("ignore-unbalanced", "src/w.py", "# REUSE-IgnoreEnd\n# SPDX-License-Identifier: MIT\n# REUSE-IgnoreStart\n# SPDX-License-Identifier: Foo\n"),
    ("license-file-weird", "src/w.png.license", "\udcff\x00\x01"),
    ("terminators", "src/w.html", "<!-- SPDX-License-Identifier: MIT " + "--> */ #} " * 300 + "\n"),
]


def gen_case(seed, tier, index=0):
    rng = Rng(seed, "c16")
    fam = rng.wpick([(3, "broken"), (3, "weird"), (6, "faults"), (1, "pipes"), (1, "history")])
    files = _base_files()
    case = {"prop": PROP, "seed": seed, "family": fam, "config": [], "must_be_2": False}
    if fam == "pipes":
        # whoever reads the command's output has gone away (reuse lint | head -0; 2>&1 | true) while the files make the
        # workers talk: the command still ends with one of its exit statuses, not by a signal, not never
        for i in range(rng.randint(3, 12)):
            files.append({"path": f"src/odd{i}.py", "content": "# SPDX-FileCopyrightText: 2020 J\n# SPDX-License-Identifier: MIT AND\n"})
        cmds = rng.sample([["lint"], ["lint", "--json"], ["spdx"], ["lint-file", "src/odd0.py", "src/a.py"], ["lint", "--lines"]], 3)
        variants = []
        for st in _steps_for(rng, cmds, pool_p=0.7):
            st[rng.pick(["stdout", "stderr"])] = "epipe"
            variants.append({"hashseed": rng.randrange(8), "steps": [st]})
        case.update(trigger="pipes", world={"files": files}, variants=variants)
        return case
    if fam == "history":
        # an annotate run that dies while writing, then the same commands again: what the first left behind (a temporary
        # file, half a header) is input like any other
        tgt = rng.pick(["src/b.c", "src/a.py", "docs/c.md"])
        d = posixpath.dirname(tgt)
        first = {"argv": ["--no-multiprocessing", "annotate", "-c", "Jane", "-l", "MIT", tgt], "inject": True, "buffer_size": 16,
                 "faults": [{"op": "write", "path_glob": d + "/*", "errno": rng.pick(["ENOSPC", "EFBIG", "EIO"]), "after": rng.pick([0, 10, 40, 90])}]}
        later = [["annotate", "-c", "Jane", "-l", "MIT", tgt], ["lint"], ["annotate", "-c", "Bob", "-l", "MIT", "--skip-unrecognised", "-r", d],
                 ["lint-file", tgt], ["spdx"]]
        steps = [first] + _steps_for(rng, [later[0]] + rng.sample(later[1:], 2), pool_p=0.3)
        case.update(trigger="history:torn-annotate", world={"files": files}, variants=[{"hashseed": rng.randrange(8), "steps": steps}])
        return case
    if fam == "broken":
        if rng.chance(0.15):
            where = rng.pick(["REUSE.toml", "REUSE.toml", "src/REUSE.toml", "src/core/deep/REUSE.toml"])
            files.append({"path": where, "content": 'version = 1\n'})
            files.append({"path": ".reuse/dep5", "content": G.dep5([{"files": "*", "copyright": "2020 X", "license": "MIT"}])})
            case.update(trigger="conflict" if where == "REUSE.toml" else "conflict-nested", config=[where, ".reuse/dep5"], must_be_2=True, name_any=True)
        else:
            name, path, content = rng.pick(BROKEN)
            if path == "REUSE.toml" and rng.chance(0.2):
                # the broken file sits in a directory whose name means something to str.format / the % operator
                d = rng.pick(["pkg{core}", "{}", "100%s", "{0}"])
                path = f"{d}/REUSE.toml"
                files.append({"path": f"{d}/x.py", "content": "x = 1\n"})
            files.append({"path": path, "content": content})
            if path != "REUSE.toml" and path.endswith("REUSE.toml") and rng.chance(0.5):
                files.append({"path": "REUSE.toml", "content": 'version = 1\n[[annotations]]\npath = "**"\nSPDX-License-Identifier = "MIT"\n'})
            case.update(trigger=name, config=[path], must_be_2=name in MUST_BE_2)
        cmds = rng.sample(COMMANDS, 4)
        variants = [{"hashseed": rng.randrange(8), "steps": [st]} for st in _steps_for(rng, cmds)]
    elif fam == "weird":
        picks = rng.sample(WEIRD, rng.randint(1, 3))
        seen = set()
        for name, path, content in picks:
            if path in seen:
                continue
            seen.add(path)
            files.append({"path": path, "content": content})
        if any(p == "LICENSES/LicenseRef-Odd.txt" for _, p, _ in picks):
            files.append({"path": "src/uses_odd.py", "content": "# SPDX-FileCopyrightText: 2020 J\n# SPDX-License-Identifier: LicenseRef-Odd\n"})
        if any(p == "src/w.png.license" for _, p, _ in picks):
            files.append({"path": "src/w.png", "content": G.BINARY})
        if any(p == ".gitmodules" for _, p, _ in picks):
            case["force_git"] = True
        if rng.chance(0.2):
            # several files of one invocation that cannot be decoded: the exit status stays one of the documented ones
            for i in range(rng.randint(3, 5)):
                files.append({"path": f"src/u{i}.py", "content": "# caf\udce9 number %d\nx = 1\n" % i})
        if rng.chance(0.15):
            case["fifo"] = rng.pick(["src/a.py.license", "src/pipe", "docs/c.md.license"])
        if rng.chance(0.3):
            files.append({"path": "REUSE.toml", "content": 'version = 1\n[[annotations]]\npath = "src/**"\nprecedence = "aggregate"\nSPDX-FileCopyrightText = "2020 X"\nSPDX-License-Identifier = "MIT"\n'})
        case.update(trigger="weird:" + "+".join(sorted(n for n, _, _ in picks)))
        target = sorted(p for p in seen if not p.startswith("LICENSES/") or len(seen) == 1)[0]
        cmds = rng.sample(READONLY, 3) + [["lint-file", target],
                                          ["annotate", "-c", "Jane", "-l", "MIT", "--fallback-dot-license", target],
                                          ["annotate", "-c", "Jane", "-l", "MIT", "--skip-existing", "--skip-unrecognised", "-r", "src"]]
        variants = [{"hashseed": rng.randrange(8), "steps": [st]} for st in _steps_for(rng, cmds)]
    else:
        glob_kind = rng.wpick([(3, "none"), (3, "toml"), (3, "dep5")])
        if glob_kind == "toml":
            files.append({"path": "REUSE.toml", "content": 'version = 1\n[[annotations]]\npath = "src/**"\nprecedence = "closest"\nSPDX-FileCopyrightText = "2020 X"\nSPDX-License-Identifier = "MIT"\n'})
            if rng.chance(0.5):
                files.append({"path": "docs/REUSE.toml", "content": 'version = 1\n[[annotations]]\npath = "*.md"\nprecedence = "override"\nSPDX-FileCopyrightText = "2020 Y"\nSPDX-License-Identifier = "CC0-1.0"\n'})
        elif glob_kind == "dep5":
            files.append({"path": ".reuse/dep5", "content": G.dep5([{"files": "src/*", "copyright": "2020 X", "license": "MIT"}])})
        for i in range(rng.randint(0, 4)):
            files.append({"path": f"src/core/m{i}.py", "content": "# SPDX-FileCopyrightText: 2022 K\n# SPDX-License-Identifier: MIT\n"})
        covered = [f["path"] for f in files if not f["path"].startswith(("LICENSES/", ".reuse/")) and not f["path"].endswith("REUSE.toml")]
        cfgs = [f["path"] for f in files if f["path"].endswith(("REUSE.toml", "dep5"))]
        faults, muts, kinds = [], [], []
        for _ in range(rng.randint(1, 3)):
            k = rng.wpick([(5, "file"), (3 if cfgs else 0, "config"), (2, "dir"), (1 if glob_kind == "dep5" else 0, "dep5-worker"), (1, "licenses"), (2, "stat"),
                           (3, "gone-before-check"), (2 if glob_kind == "dep5" else 0, "dep5-gone-after-parse")])
            if k == "file":
                t = rng.pick(covered)
                kind = rng.pick(["EACCES", "ENOENT", "EIO", "EISDIR", "vanish", "to_dir", "ELOOP", "EMFILE"])
                if kind in ("vanish", "to_dir"):
                    muts.append({"at": {"op": "open-r", "path": t, "nth": rng.pick([1, 2])}, "do": {"op": "delete" if kind == "vanish" else "to_dir", "path": t}, "target": t})
                elif kind == "EIO":
                    faults.append({"op": "read", "path": t, "errno": "EIO", "after": rng.randrange(0, 20), "target": t})
                else:
                    faults.append({"op": "open-r", "path": t, "errno": kind, "target": t})
                kinds.append("file:" + kind)
            elif k == "config":
                t = rng.pick(cfgs)
                kind = rng.pick(["EACCES", "vanish", "EIO", "EISDIR"])
                if kind == "vanish":
                    muts.append({"at": {"op": "open-r", "path": t, "nth": 1}, "do": {"op": "delete", "path": t}, "config": t})
                elif kind == "EIO":
                    faults.append({"op": "read", "path": t, "errno": "EIO", "after": rng.randrange(0, 10), "config": t, "role": "M"})
                else:
                    faults.append({"op": "open-r", "path": t, "errno": kind, "config": t, "role": "M"})
                kinds.append("config:" + kind)
            elif k == "dep5-worker":
                faults.append({"op": "open-r", "path": ".reuse/dep5", "errno": "EACCES", "role": "W"})
                kinds.append("dep5-worker-only")
            elif k == "dir":
                d = rng.pick(["src", "src/core", "docs", "."])
                kind = rng.pick(["EACCES", "ENOENT", "rmtree", "ENOTDIR"])
                if kind == "rmtree":
                    if d != ".":
                        muts.append({"at": {"op": "scandir", "path": rng.pick([".", "src"]), "nth": rng.pick([1, 2])}, "do": {"op": "rmtree", "path": d}})
                else:
                    faults.append({"op": "scandir", "path": d, "errno": kind, "nth": rng.pick([None, 1, 2])})
                kinds.append("dir:" + kind)
            elif k == "gone-before-check":
                # the file disappears (or turns into a directory) after it was listed but before the tool looks at it:
                # while a sibling is being read (serial), or between enumeration and the first task (pool)
                t = rng.pick(covered)
                sib = rng.pick([c for c in covered if c != t] or [t])
                do = {"op": rng.pick(["delete", "to_dir"]), "path": t}
                muts.append({"at": {"op": "open-r", "path": sib, "nth": 1}, "do": do, "maybe": t})
                muts.append({"at": {"point": "after_enum"}, "do": do, "maybe": t})
                kinds.append("file:gone-before-check")
            elif k == "dep5-gone-after-parse":
                # .reuse/dep5 is removed after the parent parsed it and before a worker re-parses it
                muts.append({"at": {"point": "after_enum"}, "do": {"op": "delete", "path": ".reuse/dep5"}})
                muts.append({"at": {"op": "open-r", "path": rng.pick(covered), "nth": 1}, "do": {"op": "delete", "path": ".reuse/dep5"}})
                kinds.append("dep5-gone-after-parse")
            elif k == "stat":
                # entries of a directory that can be listed but not searched (mode r--): stat() is denied
                d = rng.pick(["src", "src/core", "docs"])
                for t in [c for c in covered if posixpath.dirname(c) == d]:
                    faults.append({"op": "stat", "path": t, "errno": "EACCES", "target": t})
                kinds.append("stat:EACCES")
            elif k == "licenses":
                faults.append({"op": "scandir", "path": "LICENSES", "errno": "EACCES"})
                kinds.append("dir:LICENSES-EACCES")
        if rng.chance(0.2):
            case["fifo"] = "src/named_pipe"
            kinds.append("fifo-in-tree")
        case.update(trigger="faults:" + "+".join(sorted(set(kinds))))
        cmds = rng.sample(READONLY + [["download", "--all"]], 3)
        extra = {"faults": faults, "mutations": muts, "readdir_key": rng.randrange(1 << 30)}
        variants = [{"hashseed": rng.randrange(8), "steps": [st]} for st in _steps_for(rng, cmds, 0.5, extra)]
        case["covered"] = covered
    if (rng.chance(0.3) and fam != "faults") or case.get("force_git"):
        case_git = {"commit": True}
    else:
        case_git = None
    case["world"] = {"files": files}
    if rng.chance(0.15):
        # symbolic links that cannot be resolved: a self-loop, a two-link cycle, a link into the cycle, a dangling one
        case["world"]["symlinks"] = rng.sample([{"path": "src/self", "target": "self"}, {"path": "src/ping", "target": "pong"},
                                                {"path": "src/pong", "target": "ping"}, {"path": "docs/into", "target": "../src/ping"},
                                                {"path": "docs/gone", "target": "nowhere"}, {"path": "loopdir", "target": "."}], rng.randint(2, 5))
    if fam == "broken" and rng.chance(0.3):
        # the project directory's own name ends up in the message that names the broken file
        case["world"]["root_name"] = rng.pick(["proj{2024}", "{}", "{0}", "100%s", "a b", "p[1]", "%(x)s", "{name"])
    if case.get("fifo"):
        case["world"]["fifos"] = [case["fifo"]]
    if case_git:
        case["world"]["git"] = case_git
    case["variants"] = variants
    return case


# ---- oracle -----------------------------------------------------------------------------------
def oracle(case, results):
    vs = []
    present = {f["path"] for f in case["world"]["files"]}
    cfg_present = [c for c in case.get("config", []) if c in present]
    if case.get("family") in ("pipes", "history"):
        for vi, var in enumerate(case["variants"]):
            for st, rec in zip(var["steps"], results[vi]["records"]):
                if st.get("inject"):
                    continue  # the step that plants the failure: its own outcome is not judged
                cmd = [a for a in st["argv"] if a != "--no-multiprocessing" and a not in GLOBAL_FLAGS]
                what = case["family"] + (":" + "+".join(k for k in ("stdout", "stderr") if st.get(k)) if case["family"] == "pipes" else "")
                if rec.get("killed_by"):
                    vs.append({"sig": f"C16/killed-by-signal/{rec['killed_by']}/{cmd[0]}", "detail": f"argv={st['argv']} {what}"})
                elif rec.get("timeout"):
                    vs.append({"sig": f"C16/no-termination/{cmd[0]}", "detail": f"argv={st['argv']} {what}"})
                elif rec.get("exc"):
                    e = rec["exc"]
                    vs.append({"sig": f"C16/unhandled/{e['type']}@{e['where']}", "detail": f"command {' '.join(cmd)}; {what}; fired={rec.get('fired')}\n{e['tb'][-900:]}"})
                elif rec.get("exit") not in (0, 1, 2):
                    vs.append({"sig": f"C16/exit-status/{rec.get('exit')}/{cmd[0]}", "detail": f"argv={st['argv']} {what}"})
        return vs
    for vi, var in enumerate(case["variants"]):
        st = var["steps"][0]
        rec = results[vi]["records"][0]
        cmd = [a for a in st["argv"] if a != "--no-multiprocessing" and a not in GLOBAL_FLAGS]
        name = cmd[0]
        if rec.get("killed_by"):
            vs.append({"sig": f"C16/killed-by-signal/{rec['killed_by']}/{name}", "detail": f"argv={st['argv']}"})
            continue
        if rec.get("timeout"):
            vs.append({"sig": f"C16/no-termination/{name}", "detail": f"argv={st['argv']} trigger={case.get('trigger')}"})
            continue
        if rec.get("exc"):
            e = rec["exc"]
            vs.append({"sig": f"C16/unhandled/{e['type']}@{e['where']}",
                       "detail": f"command {' '.join(cmd)}; trigger={case.get('trigger')}; fired={rec.get('fired')}\n{e['tb'][-900:]}"})
            continue
        code = rec.get("exit")
        if code not in (0, 1, 2):
            vs.append({"sig": f"C16/exit-status/{code}/{name}", "detail": f"argv={st['argv']} exit_obj={rec.get('exit_obj')}"})
            continue
        if "Traceback (most recent call last)" in rec.get("stdout", ""):
            vs.append({"sig": f"C16/traceback-on-stdout/{name}", "detail": rec["stdout"][-600:]})
        needs_project = name not in ("supported-licenses",)
        err = rec.get("stderr", "") + rec.get("stdout", "")
        if needs_project and cfg_present:
            if case.get("must_be_2") and code != 2:
                vs.append({"sig": f"C16/broken-config-accepted/{case.get('trigger')}", "detail": f"command {' '.join(cmd)} exit={code}; stderr={rec.get('stderr', '')[-300:]}"})
            if code == 2 and case.get("family") in ("broken", "toml-type") and not (name == "convert-dep5" and "No '.reuse/dep5'" in err):
                named = [c for c in cfg_present if c in err]
                if not named and "Usage:" in err and not _usage_unrelated(cmd, err):
                    vs.append({"sig": f"C16/config-file-not-named/{case.get('trigger')}", "detail": f"command {' '.join(cmd)}; stderr={rec.get('stderr', '')[-400:]}"})
        # fault facet
        if case.get("family") == "faults":
            vs += _fault_oracle(case, st, rec, cmd, code)
    return vs


def _usage_unrelated(cmd, err):
    return any(s in err for s in ("is mutually exclusive", "Missing argument", "No such option", "does not exist", "is not inside of", "is required"))


def _fault_oracle(case, st, rec, cmd, code):
    vs = []
    fired_paths = {k.split("|", 1)[1] for k in rec.get("fired", []) if "|" in k}
    cfg_hit = sorted({f.get("config") for f in (st.get("faults") or []) + (st.get("mutations") or [])
                      if f.get("config") and (f.get("path") or f.get("do", {}).get("path")) in fired_paths
                      and f.get("role", "M") == "M"})
    err = rec.get("stderr", "") + rec.get("stdout", "")
    if cfg_hit:
        if code != 2:
            vs.append({"sig": "C16/unreadable-config-not-an-error", "detail": f"{cfg_hit} could not be read but {' '.join(cmd)} exit={code}; fired={rec.get('fired')}"})
        elif not any(c in err for c in cfg_hit):
            vs.append({"sig": "C16/unreadable-config-not-named", "detail": f"{cfg_hit}; stderr={rec.get('stderr', '')[-300:]}"})
        return vs
    if cmd[:2] == ["lint", "--json"] and code in (0, 1):
        try:
            d = json.loads(rec.get("stdout", ""))
        except ValueError:
            vs.append({"sig": "C16/lint-json-unparseable", "detail": rec.get("stdout", "")[:300]})
            return vs
        dir_trouble = any(k.startswith(("scandir:", "mutation:rmtree")) for k in rec.get("fired", []))
        if dir_trouble:
            return vs  # enumeration faults: only 'no crash' is required (DESIGN.md 3.C01)
        files = {f["path"]: f for f in d["files"]}
        re_ = {posixpath.normpath(p)[len("$B/p/"):] if posixpath.normpath(p).startswith("$B/p/") else posixpath.normpath(p) for p in d["non_compliant"]["read_errors"]}
        faulted = {f.get("target") for f in (st.get("faults") or []) + (st.get("mutations") or [])
                   if f.get("target") and (f.get("path") or f.get("do", {}).get("path")) in fired_paths}
        maybe = {f.get("maybe") for f in (st.get("mutations") or []) if f.get("maybe")}
        for p in case.get("covered", []):
            if p in maybe:
                continue  # may have been processed before or after it disappeared: any outcome but a crash is fine
            if p in faulted:
                ok = p in re_ or (p in files and (not files[p]["copyrights"] or not files[p]["spdx_expressions"]))
                if not ok:
                    vs.append({"sig": "C16/faulted-file-neither-read-error-nor-lacking", "detail": f"{p}: fired={rec.get('fired')} entry={files.get(p)}"})
            elif p not in files and p not in re_:
                vs.append({"sig": "C16/run-aborted/unaffected-file-has-no-entry", "detail": f"{p} missing from files[]; fired={rec.get('fired')}"})
    return vs


def account(case, results, cov):
    w = digest(case["world"])
    for vi, var in enumerate(case["variants"]):
        rec = results[vi]["records"][0]
        fired = [k for k in rec.get("fired", []) if not k.startswith("short")]
        if fired or case.get("family") != "faults":
            cov.nontrivial.add((w, digest(var["steps"][0])))
    cov.bump("family." + case.get("family", "?"))
    if len(cov.samples) < 4 and case.get("family") in ("faults", "broken") and len(cov.samples) < 4:
        cov.samples.append({"seed": case["seed"], "family": case["family"], "trigger": case.get("trigger"),
                            "steps": [{k: v for k, v in var["steps"][0].items() if k in ("argv", "faults", "mutations", "pool")} for var in case["variants"]][:3]})
