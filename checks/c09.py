"""C09 - annotate accumulates information and never drops any.

Histories of 2-8 annotate commands on one file under a simulated clock that advances between
steps (seconds to years, so the default year changes inside a history). After every step the
information the file declares is read back with the tool's own reader and compared with a
running model.
"""
import datetime
import posixpath

from checks import annot as A
from rsim import gen as G
from rsim.prf import Rng, digest

PROP = "C09"
LEVEL = "exploration"
TIERS = {
    "quick": {"cases": 560, "budget_s": 150, "batch": 64},
    "thorough": {"cases": 8000, "budget_s": 900, "batch": 64},
}
RULE = (
    "one case = one file (any of 27 comment styles via --style or its own extension, or a .license target) that starts empty, "
    "with code, or with a foreign header written by hand (other tag order, prefixes, years, a multi-line block), and a history of "
    "2-8 annotate commands with seeded holders, licences, contributors, --copyright-prefix, --year (0-2 values) / --exclude-year, "
    "--style, --multi-line, --no-replace, --merge-copyrights, --skip-existing and default / custom / commented / "
    "information-dropping templates. The simulated clock advances between steps by seconds to years, so the default year changes "
    "inside a history. After each step the declared information D' is read from the whole file with reuse's own reader: exit 0 => "
    "D' contains D and everything requested (merge: same holders, year range covering all years); non-zero => bytes unchanged. "
    "Non-trivial = at least two steps exited 0 and changed the file; distinct = distinct plan digests"
)
EXPECTED_PROBES = ["header.merge_copyrights", "header.existing_header_merged", "annotate.skip_existing", "annotate.missing_reuse_info",
                   "annotate.write"]
SHRINK_CONTENT = True

FOREIGN = {
    "python": "# Copyright (C) 2015, Old Holder\n# SPDX-License-Identifier: 0BSD\n# SPDX-FileContributor: Old Contributor\n\nimport os\n",
    "c": "/*\n * SPDX-License-Identifier: BSD-3-Clause\n * © 2011 Ancient Corp.\n * SPDX-FileCopyrightText: 2012-2014 Second Holder\n */\n\nint x;\n",
    "html": "<!--\nSPDX-FileCopyrightText: Copyright 2009 Web Person\n\nSPDX-License-Identifier: CC0-1.0\n-->\n<html></html>\n",
    "cpp": "// SPDX-License-Identifier: MIT\n// Copyright 2016 Cpp Person\n\nint y;\n",
    "tex": "% SPDX-FileCopyrightText: 2001 TeX Person\n%\n% SPDX-License-Identifier: CC0-1.0\n\\documentclass{article}\n",
}


def gen_case(seed, tier, index=0):
    rng = Rng(seed, "c09")
    style = rng.pick(G.STYLE_NAMES if rng.chance(0.5) else sorted(FOREIGN))
    dot_license = rng.chance(0.25)
    use_ext = rng.chance(0.6)
    name = ("h" + G.STYLES[style][7]) if use_ext else "h.unknownext"
    start = rng.wpick([(2, "empty"), (3, "code"), (3, "foreign" if style in FOREIGN else "code"), (1, "comment"), (1, "shebang")])
    content = FOREIGN[style] if start == "foreign" else A.body(style, start)
    tnames = set()
    steps = []
    extras = []
    if rng.chance(0.4):
        # further files named in the same invocations: the tool iterates a set of paths (hash-seed order)
        extras = rng.sample(["zz/data.json", "zz/other.py", "zz/logo.png", "zz/notes.txt"], rng.randint(1, 2))
    if rng.chance(0.15):
        # two files whose types are told apart by their NAMES although they share a suffix: one takes a comment header,
        # the other can only have a .license companion
        extras = rng.pick([["zz/Cargo.lock", "zz/poetry.lock"], ["zz/Cargo.lock", "zz/yarn.lock", "zz/poetry.lock"],
                           ["zz/setup.cfg", "zz/data.json"], ["zz/go.mod", "zz/logo.png"]])
    if use_ext and not dot_license and rng.chance(0.3):
        # files of the same type as the target, named in most invocations: what one of them already declares (a
        # contributor the others lack) must survive whichever of them the tool works on first
        extras = [f"zz/twin{k}{G.STYLES[style][7]}" for k in range(rng.randint(1, 3))]
    if rng.chance(0.12):
        # one file of the invocation cannot be annotated (not UTF-8): the run must say so in its exit status, and the
        # others are judged as usual
        extras = list(extras) + ["zz/latin1.py"]
    from_sub = rng.chance(0.15)  # the whole history is typed from a sub-directory, with --root ..
    bystanders = []
    if rng.chance(0.3):
        # files that are never named, whose names extend the target's (editor back-ups, left-overs): whatever the
        # tool does to write the target, what these declare must stay
        tgt = name + ".license" if dot_license else name
        bystanders = [tgt + suf for suf in rng.sample([".tmp", ".bak", "~", ".orig", ".new", ".swp"], rng.randint(1, 3))]
    t = datetime.datetime(rng.pick([2019, 2023, 2024]), rng.randint(1, 12), rng.randint(1, 28), 12, 0, 0)
    for _ in range(rng.randint(2, 8)):
        opts = {"holders": rng.sample(A.SAFE_HOLDERS[:5], rng.randint(0, 2)), "licenses": rng.sample(A.LICENSES, rng.randint(0, 2))}
        if rng.chance(0.3):
            opts["contributors"] = rng.sample(A.CONTRIBUTORS, rng.randint(1, 2))
        if rng.chance(0.06):
            opts["holders"] = A.LONG_HOLDERS[: rng.randint(45, 60)]  # pushes the header past the 4 KiB window
        if rng.chance(0.15):
            # contributors only: the header then carries neither copyright nor licence
            opts = {"holders": [], "licenses": [], "contributors": rng.sample(A.CONTRIBUTORS, rng.randint(1, 2))}
        if not (opts["holders"] or opts["licenses"] or opts.get("contributors")):
            opts["licenses"] = ["MIT"]
        if rng.chance(0.4):
            opts["prefix"] = rng.pick(sorted(A.PREFIXES))
        y = rng.randrange(5)
        if y == 0:
            opts["years"] = [rng.pick(["1999", "2015", "2022"])]
        elif y == 1:
            opts["years"] = sorted(rng.sample(["2001", "2010", "2020", "2023"], 2))
        elif y == 2:
            opts["exclude_year"] = True
        if not use_ext or rng.chance(0.1):
            opts["style"] = style if not rng.chance(0.1) else rng.pick(G.STYLE_NAMES)
        st_name = opts.get("style", style)
        if G.can_multi(st_name) and G.can_single(st_name) and rng.chance(0.25):
            opts["multi_line"] = True
        if rng.chance(0.12):
            opts["no_replace"] = True
        if rng.chance(0.2):
            opts["merge_copyrights"] = True
        if rng.chance(0.08):
            opts["skip_existing"] = True
        tk = rng.randrange(12)
        if tk == 0:
            opts["template"] = "full"
        elif tk == 1:
            opts["template"] = "nocontrib"
        elif tk == 2 and st_name == "python":
            opts["template"] = "pycommented"
        elif tk == 3:
            opts["template"] = rng.pick(["nolicence", "nocopyright", "nothing"])
        if opts.get("template"):
            tnames.add(opts["template"])
        if dot_license:
            opts["force_dot_license"] = True
            opts.pop("multi_line", None)
        named = [name] + [e for e in extras if rng.chance(0.7)]
        if opts.get("style"):
            # an unrecognised type would get an in-file header under --style and a .license under --fallback-dot-license;
            # histories that switch between the two are outside the statement, so such a file is only named without --style
            named = [x for x in named if not x.endswith(".txt")]
        rng.shuffle(named)
        if any(e.endswith(".txt") for e in named) and not opts.get("style") and not dot_license:
            opts["fallback_dot_license"] = True
        faults = []
        if rng.chance(0.12):
            # the second open of the target (the text-mode read; the first is the binary sniff) fails: the step must
            # not go on as if the file were empty
            tgt = name + ".license" if dot_license else rng.pick([n2 + ".license" for n2 in named if n2.endswith((".json", ".png", ".txt"))] or [name])
            faults = [{"op": "open-r", "path": tgt, "errno": rng.pick(["EIO", "ESTALE", "EACCES"]), "nth": 2}]
        if not faults and rng.chance(0.1):
            # the write of the new header fails (disk full, quota, I/O error): a run that then reports success for the
            # file must not have dropped what it declared
            tgt = name + ".license" if dot_license else name
            faults = [rng.pick([{"op": "write", "path": tgt, "errno": "ENOSPC", "after": rng.pick([0, 10, 60])},
                                {"op": "write", "path": tgt, "errno": "EIO", "after": 0},
                                {"op": "open-w", "path": tgt, "errno": rng.pick(["EACCES", "EROFS", "ENOSPC"])}])]
        spelled = {n2: n2 for n2 in named}
        step_extra = {}
        if from_sub:
            spelled = {n2: posixpath.relpath(n2, "zz") for n2 in named}
            step_extra = {"cwd": "zz"}
        steps.append({"argv": (["--root", ".."] if from_sub else []) + ["--no-multiprocessing"] + A.argv_of(opts, [spelled[n2] for n2 in named]),
                      "clock": t.isoformat(timespec="seconds"), "spelled": spelled, **step_extra,
                      "opts": opts, "named": named, "faults": faults,
                      "observe": [{"kind": "reuse_info", "path": p} for n in [name] + extras + bystanders for p in (n, n + ".license")]})
        t += datetime.timedelta(seconds=rng.pick([1, 30, 3600, 86400 * 20, 86400 * 200, 86400 * 400, 86400 * 800]))
    files = [{"path": name, "content": content}] + A.template_files(sorted(tnames))
    for e in extras:
        files.append({"path": e, "content": {"zz/data.json": "{}\n", "zz/other.py": "import sys\n", "zz/logo.png": G.BINARY,
                                             "zz/notes.txt": "notes\n", "zz/latin1.py": "# caf\udce9 au lait\nx = 1\n"}.get(e, A.body(style, "code"))})
    if from_sub and not any(f["path"].startswith("zz/") for f in files):
        files.append({"path": "zz/keep.txt", "content": "keeps the directory\n"})
    for b in bystanders:
        files.append({"path": b, "content": "# SPDX-FileCopyrightText: 2012 Bystander <by@example.org>\n# SPDX-License-Identifier: 0BSD\nkept = 1\n"})
    steps = [{"argv": ["--version"], "observe": [{"kind": "reuse_info", "path": p} for n in [name] + extras + bystanders for p in (n, n + ".license")]}] + steps
    return {"prop": PROP, "seed": seed, "world": {"files": files}, "style": style, "name": name, "names": [name] + extras + bystanders,
            "bystanders": bystanders, "dot_license": dot_license,
            "variants": [{"hashseed": rng.randrange(8), "steps": steps}]}


def _without(obs, junk):
    if not junk or "error" in obs:
        return obs
    return {k: ([x for x in v if x not in junk] if isinstance(v, list) else v) for k, v in obs.items()}


def _holders(lines):
    out = {}
    rest = set()
    for line in lines:
        p = A.parse_canonical(line)
        if p is None:
            rest.add(line)
        else:
            out.setdefault(p[2], []).append((p[0], p[1], line))
    return out, rest


def _declared(obs_pair):
    """What the linter would read: the .license sibling when it exists, else the file."""
    f, lic = obs_pair
    if lic is not None and lic.get("error") != "FileNotFoundError":
        return lic
    return f


def oracle(case, results):
    vs = []
    names = case.get("names") or [case["name"]]
    steps = case["variants"][0]["steps"]
    recs = results[0]["records"]
    if not recs or not recs[0].get("obs") or steps[0].get("argv") != ["--version"]:
        return vs  # the history must start with the step that only observes the initial state (the shrinker may drop it)
    empty = {"copyrights": [], "licenses": [], "contributors": []}

    def view(rec):
        obs = rec.get("obs") or []
        out = {}
        for i, n in enumerate(names):
            pair = (obs[2 * i] if len(obs) > 2 * i else None, obs[2 * i + 1] if len(obs) > 2 * i + 1 else None)
            if case["dot_license"] and n not in (case.get("bystanders") or []):
                # a history that works on the .license sibling throughout: the file's own header is not its subject
                lic = pair[1]
                out[n] = dict(empty) if (lic is None or lic.get("error") == "FileNotFoundError") else lic
            else:
                out[n] = _declared(pair)
        return out

    D = {n: (v if v and "error" not in v else dict(empty)) for n, v in view(recs[0]).items()}
    garbage = {}  # per file: lines that only exist because a write was cut short
    damaged = set()  # files an injected short write left unparseable; tracked again once they read back
    for k in range(1, len(steps)):
        if k >= len(recs):
            break
        st, rec = steps[k], recs[k]
        opts = st["opts"]
        named = st.get("named") or [case["name"]]
        injected = any("|" in f for f in rec.get("fired", []))
        if rec.get("exc"):
            if injected:
                # an injected I/O failure on a named file may end the command (outside the statement); what the files
                # declare must still not shrink, which the per-file comparison below checks
                code = 1
            else:
                vs.append({"sig": f"C09/crashed/{rec['exc']['type']}@{rec['exc']['where']}", "detail": f"step {k} argv={st['argv']}\n{rec['exc']['tb'][-500:]}"})
                return vs
        else:
            code = rec.get("exit")
        now = view(rec)
        if code == 2:
            continue
        req = A.requested(opts, st["clock"])
        tmpl = opts.get("template")
        renders_contrib = tmpl is None or A.TEMPLATES[tmpl][2]
        tclass = f"template-{tmpl}" if tmpl in ("nolicence", "nocopyright", "nothing") else "x"
        out = rec.get("stdout", "")
        wfault_any = any(f.split(":")[0] in ("write", "open-w", "open-r") for f in rec.get("fired", []))
        for n in names:
            obs = now.get(n)
            if obs is None:
                continue
            # per file: did this step annotate it successfully?
            sp = (st.get("spelled") or {}).get(n, n)
            ok_line = any(l.startswith("Successfully changed header of") and l.rstrip().endswith((n, n + ".license", sp, sp + ".license")) for l in out.splitlines())
            if n in named and not ok_line and code == 0 and not wfault_any and not opts.get("skip_existing") and not opts.get("skip_unrecognised"):
                # the run reports success and this named file was not annotated (nor skipped on request)
                vs.append({"sig": "C09/named-file-not-annotated-although-exit-0", "detail": f"step {k} argv={st['argv']} cwd={st.get('cwd', '.')}: nothing was done for {n}; stdout={out[-300:]}"})
            wfault = [f for f in rec.get("fired", []) if f.split("|")[0].split(":")[0] in ("write", "open-w") and "|" in f
                      and f.split("|", 1)[1] in (n, n + ".license")]
            if wfault:
                # the write of this file's header failed: the file may be truncated (the tool opens it for writing
                # before it writes); that is only acceptable if the command did not report success
                if code == 0:
                    lost = sorted((set(D[n]["licenses"]) - set(obs.get("licenses", []))) | (set(D[n]["copyrights"]) - set(obs.get("copyrights", []))))
                    want = sorted((set(req["licenses"]) - set(obs.get("licenses", []))) | (set(req["copyrights"]) - set(obs.get("copyrights", []))))
                    if (lost or want) and n in named:
                        vs.append({"sig": "C09/failed-write-reported-as-success",
                                   "detail": f"step {k} argv={st['argv']}: {wfault} fired, exit status 0, {n} lost {lost} and lacks the requested {want}"})
                if "error" in obs:
                    D[n] = dict(empty)
                    damaged.add(n)
                else:
                    # what a write that was cut short left behind may contain half a line that reads like a notice of
                    # its own: only what the file declared before, or what this run was asked to add, counts as declared
                    keys = {"copyrights": "copyrights", "licenses": "licenses", "contributors": "contributors"}
                    for k, rk in keys.items():
                        garbage.setdefault(n, set()).update(x for x in obs.get(k, []) if x not in D[n].get(k, []) and x not in req.get(rk, []))
                    D[n] = {k: [x for x in obs.get(k, []) if x not in garbage.get(n, ())] for k in keys}
                continue
            if n not in named or not ok_line:
                # not named, skipped or failed for this file: what the file declares must at least not shrink
                if "error" not in obs and n in named is False:
                    pass
                if "error" in obs and n not in named and (D[n]["licenses"] or D[n]["copyrights"]):
                    vs.append({"sig": "C09/unnamed-file-lost-information", "detail": f"step {k} argv={st['argv']}: {n} declared {D[n]} and can no longer be read: {obs['error']}"})
                    D[n] = dict(empty)
                if "error" not in obs:
                    lost = sorted((set(D[n]["licenses"]) - set(obs["licenses"])) | (set(D[n]["copyrights"]) - set(obs["copyrights"])))
                    if lost and n not in named:
                        vs.append({"sig": "C09/unnamed-file-lost-information", "detail": f"step {k} argv={st['argv']}: {n} lost {lost}"})
                    elif lost and not opts.get("merge_copyrights"):
                        vs.append({"sig": f"C09/information-lost-without-success/{tclass}", "detail": f"step {k} argv={st['argv']}: {n} lost {lost}; stdout={out[-300:]}"})
                    D[n] = _without(obs, garbage.get(n))
                continue
            if "error" in obs:
                if n in damaged:
                    # the injected short write of an earlier step left half a line that does not parse; the tool warns,
                    # adds its header and leaves the fragment: the file was unreadable before this step, not because of it
                    D[n] = dict(empty)
                    continue
                vs.append({"sig": f"C09/unreadable-after-success/{obs['error']}", "detail": f"step {k} argv={st['argv']} file={n}"})
                return vs
            damaged.discard(n)
            many = "/multi-file" if len(named) > 1 else ""
            want_l = set(D[n]["licenses"]) | set(req["licenses"])
            lost_l = sorted(want_l - set(obs["licenses"]))
            if lost_l:
                which = "requested" if set(lost_l) & set(req["licenses"]) else "previously-declared"
                vs.append({"sig": f"C09/licence-lost/{which}/{tclass}{many}",
                           "detail": f"step {k} argv={st['argv']}: exit {code} and 'Successfully changed' for {n}, but licences {lost_l} are not declared afterwards (before: {D[n]['licenses']}, after: {obs['licenses']})"})
            if renders_contrib:
                lost_c = sorted((set(D[n]["contributors"]) | set(req["contributors"])) - set(obs["contributors"]))
                if lost_c:
                    vs.append({"sig": f"C09/contributor-lost/{tclass}{many}", "detail": f"step {k} argv={st['argv']}: {n}: {lost_c} (before {D[n]['contributors']}, after {obs['contributors']})"})
            want_c = set(D[n]["copyrights"]) | set(req["copyrights"])
            if not opts.get("merge_copyrights"):
                lost = sorted(want_c - set(obs["copyrights"]))
                if lost:
                    which = "requested" if set(lost) & set(req["copyrights"]) else "previously-declared"
                    vs.append({"sig": f"C09/copyright-lost/{which}/{tclass}{many}",
                               "detail": f"step {k} argv={st['argv']}: {n}: {lost} not declared afterwards (after: {obs['copyrights']})"})
            else:
                hw, rest_w = _holders(want_c)
                ho, rest_o = _holders(obs["copyrights"])
                for holder, items in sorted(hw.items()):
                    if holder not in ho:
                        vs.append({"sig": f"C09/merge/holder-lost/{tclass}", "detail": f"step {k} argv={st['argv']}: {n}: holder {holder!r} gone (after: {obs['copyrights']})"})
                        continue
                    years = sorted({y for _, ys, _ in items for y in ys})
                    lost_years = [y for y in years if not any(ys and min(ys) <= y <= max(ys) for _, ys, _ in ho[holder])]
                    if lost_years:
                        vs.append({"sig": f"C09/merge/year-lost/{tclass}",
                                   "detail": f"step {k} argv={st['argv']}: {n}: holder {holder!r} had years {years}, now {[ys for _, ys, _ in ho[holder]]}"})
                lost_rest = sorted(rest_w - set(obs["copyrights"]))
                if lost_rest:
                    vs.append({"sig": f"C09/merge/unparsed-line-lost/{tclass}", "detail": f"step {k} argv={st['argv']}: {n}: {lost_rest}"})
            D[n] = _without(obs, garbage.get(n))
    return vs


def account(case, results, cov):
    recs = results[0]["records"]
    steps = case["variants"][0]["steps"]
    eff = sum(1 for r in recs[1:] if r.get("exit") == 0 and (r.get("diff") or {}))
    if eff >= 2:
        cov.nontrivial.add(digest([case["world"], [s.get("argv") for s in steps], [s.get("clock") for s in steps]]))
    for a, b in zip(steps[1:], steps[2:]):
        ta, tb = datetime.datetime.fromisoformat(a["clock"]), datetime.datetime.fromisoformat(b["clock"])
        cov.sim_seconds += int((tb - ta).total_seconds())
        if ta.year != tb.year:
            cov.year_rollovers += 1
    cov.bump("steps_total", len(steps) - 1)
    cov.bump("steps_exit0_changed", eff)
    cov.bump("histories_dot_license", 1 if case["dot_license"] else 0)
    if len(cov.samples) < 3 and eff >= 3:
        cov.samples.append({"seed": case["seed"], "file": case["name"], "start": case["world"]["files"][0]["content"][:200],
                            "history": [{"clock": s.get("clock"), "argv": s["argv"][1:]} for s in steps[1:]]})
