"""Shared pieces for the annotate checks (C09, C10, C11): option sampling, expected
copyright lines, templates, bodies. Pure functions of an Rng; no reuse imports."""
import re

from rsim import gen as G

PREFIXES = {
    "spdx": "SPDX-FileCopyrightText:",
    "spdx-c": "SPDX-FileCopyrightText: (C)",
    "spdx-string-c": "SPDX-FileCopyrightText: Copyright (C)",
    "spdx-string": "SPDX-FileCopyrightText: Copyright",
    "spdx-string-symbol": "SPDX-FileCopyrightText: Copyright ©",
    "spdx-symbol": "SPDX-FileCopyrightText: ©",
    "string": "Copyright",
    "string-c": "Copyright (C)",
    "string-symbol": "Copyright ©",
    "symbol": "©",
}
# holders that the reader round-trips in canonical form and that contain no comment terminator
SAFE_HOLDERS = ["Jane Doe", "John Smith <john@example.org>", "ACME Corp.", "Ünï Cödé GmbH", "Mary Sue",
                "Example Project Contributors", "Free Software Foundation Europe e.V. <https://fsfe.org>", "Li Wei"]
LICENSES = ["MIT", "GPL-3.0-or-later", "Apache-2.0", "CC0-1.0", "BSD-3-Clause", "0BSD", "MIT OR Apache-2.0",
            "GPL-3.0-or-later WITH Classpath-exception-2.0", "LicenseRef-Custom", "GPL-2.0+", "LGPL-2.1+ OR MIT"]
CONTRIBUTORS = ["Bob Builder", "Alice <alice@example.com>", "Carol"]

TEMPLATES = {
    # name -> (file name, content, renders contributors, commented-for-style or None)
    "full": ("full.jinja2",
             "{% for copyright_line in copyright_lines %}\n{{ copyright_line }}\n{% endfor %}\n"
             "{% for contributor_line in contributor_lines %}\nSPDX-FileContributor: {{ contributor_line }}\n{% endfor %}\n\n"
             "{% for expression in spdx_expressions %}\nSPDX-License-Identifier: {{ expression }}\n{% endfor %}\n", True, None),
    "nocontrib": ("nocontrib.jinja2",
                  "Preamble line of the project\n\n{% for copyright_line in copyright_lines %}\n{{ copyright_line }}\n{% endfor %}\n\n"
                  "{% for expression in spdx_expressions %}\nSPDX-License-Identifier: {{ expression }}\n{% endfor %}\n", False, None),
    "pycommented": ("pyc.commented.jinja2",
                    "{% for copyright_line in copyright_lines %}\n# {{ copyright_line }}\n{% endfor %}\n#\n"
                    "{% for expression in spdx_expressions %}\n# SPDX-License-Identifier: {{ expression }}\n{% endfor %}\n", False, "python"),
    # information-dropping templates (C11 / C09 finding)
    "nolicence": ("nolicence.jinja2", "{% for copyright_line in copyright_lines %}\n{{ copyright_line }}\n{% endfor %}\n", False, None),
    "nocopyright": ("nocopyright.jinja2", "{% for expression in spdx_expressions %}\nSPDX-License-Identifier: {{ expression }}\n{% endfor %}\n", False, None),
    "nothing": ("nothing.jinja2", "This header intentionally left blank\n", False, None),
    # keeps the first copyright line only (and the licences): drops information as soon as there are two holders
    "firstonly": ("firstonly.jinja2", "{{ copyright_lines[0] }}\n\n{% for expression in spdx_expressions %}\nSPDX-License-Identifier: {{ expression }}\n{% endfor %}\n", False, None),
}


def template_files(names):
    return [{"path": f".reuse/templates/{TEMPLATES[n][0]}", "content": TEMPLATES[n][1]} for n in names]


def copyright_line(holder, prefix, year):
    p = PREFIXES[prefix or "spdx"]
    return f"{p} {year} {holder}" if year else f"{p} {holder}"


def year_of(opts, clock):
    """The tool's rule: --exclude-year -> None; one --year -> it; two -> 'min - max'; none -> today's year."""
    if opts.get("exclude_year"):
        return None
    ys = opts.get("years") or []
    if len(ys) > 1:
        return f"{min(ys)} - {max(ys)}"
    if ys:
        return ys[0]
    return clock[:4]


def requested(opts, clock):
    y = year_of(opts, clock)
    return {
        "copyrights": sorted({copyright_line(h, opts.get("prefix"), y) for h in opts.get("holders", [])}),
        "licenses": sorted(set(opts.get("licenses", []))),
        "contributors": sorted(set(opts.get("contributors", []))),
    }


def argv_of(opts, paths):
    a = ["annotate"]
    for h in opts.get("holders", []):
        a += ["-c", h]
    for l in opts.get("licenses", []):
        a += ["-l", l]
    for c in opts.get("contributors", []):
        a += ["--contributor", c]
    for y in opts.get("years", []) or []:
        a += ["--year", y]
    if opts.get("exclude_year"):
        a.append("--exclude-year")
    if opts.get("prefix"):
        a += ["--copyright-prefix", opts["prefix"]]
    if opts.get("style"):
        a += ["--style", opts["style"]]
    if opts.get("template"):
        a += ["--template", TEMPLATES[opts["template"]][0].split(".")[0]]
    for flag in ("multi_line", "single_line", "no_replace", "merge_copyrights", "skip_existing", "force_dot_license",
                 "fallback_dot_license", "skip_unrecognised", "recursive"):
        if opts.get(flag):
            a.append("--" + flag.replace("_", "-"))
    return a + list(paths)


BODY_KINDS = ["empty", "code", "comment", "shebang", "blank-lead", "crlf", "no-final-newline", "bom"]
LONG_HOLDERS = [f"Contributor Number {i:03d} of the Very Long Named Organisation <contributor{i:03d}@example.org>" for i in range(60)]


def body(style, kind):
    code = G.body_for(style)
    if kind == "empty":
        return ""
    if kind == "code":
        return code
    if kind == "comment":
        return G.comment(style, "An ordinary comment\nover two lines", multi=not G.can_single(style)) + "\n\n" + code
    if kind == "shebang":
        sb = G.STYLES[style][6]
        if not sb:
            return code
        first = {"#!": "#!/usr/bin/env something", "<?xml": '<?xml version="1.0" encoding="UTF-8"?>', "<?php": "<?php",
                 "cabal-version:": "cabal-version: 2.4", "% !TEX": "% !TEX root = main.tex", "%!TEX": "%!TEX root = main.tex",
                 "% !BIB": "% !BIB program = biber", "%!BIB": "%!BIB program = biber"}[sb[0]]
        return first + "\n" + code
    if kind == "blank-lead":
        return "\n\n" + code
    if kind == "crlf":
        return code.replace("\n", "\r\n")
    if kind == "no-final-newline":
        return code.rstrip("\n")
    if kind == "bom":
        return "\ufeff" + code
    raise AssertionError(kind)


_YEAR = re.compile(r"(\d{4}) ?- ?(\d{4})|(\d{4})")


def parse_canonical(line):
    """(prefix, years, holder) for the canonical forms this generator emits; None otherwise."""
    for name, p in sorted(PREFIXES.items(), key=lambda kv: -len(kv[1])):
        if line.startswith(p + " "):
            rest = line[len(p) + 1:]
            m = re.match(r"(\d{4} ?- ?\d{4}|\d{4}),? +(.*)$", rest)
            if m:
                ys = re.findall(r"\d{4}", m.group(1))
                return name, ys, m.group(2)
            return name, [], rest
    return None
