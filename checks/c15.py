"""C15 - commands touch only what they are documented to touch.

Histories of commands over a project with symlinks into a sentinel directory, Git-ignored
files, excluded files, read-only files; after every command the recorded diff of project,
sentinel and HOME must be a subset of what that command may touch.
"""
import posixpath
import re

from rsim import gen as G
from rsim.prf import Rng, digest

PROP = "C15"
LEVEL = "exploration"
TIERS = {
    "quick": {"cases": 650, "budget_s": 150, "batch": 64},
    "thorough": {"cases": 5000, "budget_s": 900, "batch": 64},
}
RULE = (
    "one case = one project (source files of several comment styles, uncommentable and binary files, empty files, excluded "
    "names, LICENSES/, .reuse/ with templates, REUSE.toml or dep5, read-only files, symlinks to files and directories of a "
    "sentinel directory outside the project, internal and dangling symlinks; optionally a Git work tree with ignored files and "
    "directories, untracked files and an ignored file below a wholly untracked directory) plus a history of 1-6 commands drawn "
    "from all sub-commands, --help/--version and invalid command lines, some with read faults or network outcomes. After every "
    "command: diff(project + sentinel + HOME) must be a subset of allowed(command, argv, pre-state). Git's own check-ignore is the "
    "ground truth for ignored files. Non-trivial = the history contains a mutating command or a fault fired; distinct = distinct "
    "plan digests"
)
EXPECTED_PROBES = ["covered.symlink_skipped", "annotate.write", "annotate.force_dot_license", "convert.unlink",
                   "download.licenseref_touch", "annotate.skip_unrecognised"]
ASSUMPTIONS = (
    ".git/ is excluded from the comparison: 'git status', which reuse runs, may refresh Git's own index",
    "a symlink or ignored file that the user names explicitly counts as named; the statement is about what recursion may reach",
    "mode bits are compared but cannot be enforced: the sandbox runs as root",
)
SHRINK_CONTENT = False

EXCL_FILE = [re.compile(p) for p in (
    r"^LICEN[CS]E([-\.].*)?$", r"^COPYING([-\.].*)?$", r"^\.git$", r"^\.hgtags$", r".*\.license$", r"^REUSE\.toml$",
    r"^CAL-1.0(-Combined-Work-Exception)?(\..+)?$", r"^SHL-2.1(\..+)?$", r".*\.spdx$", r".*\.spdx.(rdf|json|xml|ya?ml)$")]
EXCL_DIR = {".git", ".hg", ".sl", "LICENSES", ".reuse"}


def gen_case(seed, tier, index=0):
    rng = Rng(seed, "c15")
    files = [
        {"path": "src/a.py", "content": "# SPDX-FileCopyrightText: 2020 Jane\n# SPDX-License-Identifier: MIT\nprint(1)\n"},
        {"path": "src/b.c", "content": "int x;\n"},
        {"path": "src/deep/c.html", "content": "<html></html>\n"},
        {"path": "docs/d.md", "content": "text\n"},
        {"path": "docs/data.json", "content": "{}\n"},
        {"path": "docs/logo.png", "content": G.BINARY},
        {"path": "src/unknown.xyz", "content": "?\n"},
        {"path": "src/empty.py", "content": ""},
        {"path": "LICENSE", "content": "the licence\n"},
        {"path": "docs/COPYING.md", "content": "copying\n"},
        {"path": "src/orphan.txt.license", "content": "SPDX-License-Identifier: MIT\n"},
        {"path": "bom.spdx", "content": "SPDXVersion: SPDX-2.1\n"},
        {"path": "LICENSES/MIT.txt", "content": "MIT text\n"},
        {"path": ".reuse/templates/tpl.jinja2", "content": "{% for c in copyright_lines %}\n{{ c }}\n{% endfor %}\n\n{% for e in spdx_expressions %}\nSPDX-License-Identifier: {{ e }}\n{% endfor %}\n"},
        {"path": "src/ro.py", "content": "x = 1\n", "mode": 0o444},
    ]
    files = [f for f in files if rng.chance(0.8) or f["path"] in ("src/a.py", "src/b.c", "LICENSES/MIT.txt")]
    if rng.chance(0.4):
        # two Meson subprojects next to each other: both are excluded unless --include-meson-subprojects is given
        files.append({"path": "subprojects/liba/a.c", "content": "int a;\n"})
        files.append({"path": "subprojects/libb/b.c", "content": "int b;\n"})
        files.append({"path": "subprojects/libc/c.py", "content": "c = 1\n"})
    if rng.chance(0.5):
        files.append({"path": "LICENSES/LicenseRef-Custom.txt", "content": "hand-edited custom licence - must never change\n"})
    files.append({"path": "srclic/LicenseRef-Custom.txt", "content": "custom licence text from the source directory\n"})
    empty_dirs = []
    if rng.chance(0.3):
        # directories that exist and are empty: a failed download must leave them where they are
        files[:] = [f for f in files if not f["path"].startswith("LICENSES/")]
        empty_dirs = ["LICENSES", "third_party"]
    # names that merely START with the name of a directory that gets annotated recursively
    for extra in ("src2/two.py", "src-legacy/old.py", "srcgen.py", "docs-old/x.html", "src/deeper/y.py", "docs.py"):
        if rng.chance(0.45):
            files.append({"path": extra, "content": "v = 0\n"})
    # every name the statement excludes: SPDX documents in all their spellings, licence and copying files
    for extra in ("bom.spdx", "src/part.spdx.yml", "docs/bom.spdx.yaml", "src/bom.spdx.json", "bom.spdx.rdf", "docs/x.spdx.xml",
                  "LICENSE", "src/LICENCE.md", "docs/COPYING-extra", "src/LICENSE-MIT.txt"):
        if rng.chance(0.12):
            files.append({"path": extra, "content": "SPDXVersion: SPDX-2.1\nnot to be annotated\n"})
    # names that EXTEND the name of a file that gets annotated (back-ups, left-overs of editors and of other tools)
    for extra in ("src/a.py.tmp", "src/a.py~", "src/b.c.bak", "src/b.c.orig", "src/a.py.new", "src/.a.py.swp"):
        if rng.chance(0.25):
            files.append({"path": extra, "content": "# SPDX-FileCopyrightText: 2012 Somebody Else\nkeep = 1\n"})
    g = rng.randrange(3)
    if g == 0:
        files.append({"path": "REUSE.toml", "content": G.reuse_toml([{"path": "docs/**", "precedence": "aggregate", "SPDX-FileCopyrightText": "2020 X", "SPDX-License-Identifier": "CC0-1.0"}])})
    elif g == 1:
        files.append({"path": ".reuse/dep5", "content": G.dep5([{"files": "docs/*", "copyright": "2020 X", "license": "CC0-1.0"}])})
    sentinel = [{"path": "secret.txt", "content": "do not touch\n"}, {"path": "dir/inner.py", "content": "y = 2\n"},
                {"path": "dir/sub/other.c", "content": "int y;\n"}, {"path": "ro.txt", "content": "ro\n", "mode": 0o444}]
    symlinks = []
    dangling_dest = False
    if rng.chance(0.8):
        symlinks.append({"path": "src/link_file.py", "target": "@S/dir/inner.py"})
    if rng.chance(0.7):
        symlinks.append({"path": "src/linkdir", "target": "@S/dir"})
    if rng.chance(0.5):
        symlinks.append({"path": "docs/rel_link.py", "target": "../src/a.py"})
    if rng.chance(0.3):
        symlinks.append({"path": "dangling.py", "target": "nonexistent-target"})
    if rng.chance(0.3):
        symlinks.append({"path": "LICENSES/linked.txt", "target": "@S/secret.txt"})
    if rng.chance(0.15):
        # the place a licence text would go to is taken by a symlink that points nowhere (yet): outside or inside the project
        symlinks.append({"path": "LICENSES/0BSD.txt", "target": rng.pick(["@S/not-there.txt", "../missing-target.txt"])})
        dangling_dest = True
    if rng.chance(0.12):
        # a .license companion that is itself a symlink: to a file outside the project, to nothing (outside), or to a
        # shared companion inside the project
        for cand in rng.sample([{"path": "src/b.c.license", "target": "@S/secret.txt"},
                                {"path": "docs/d.md.license", "target": "@S/not-there-yet.txt"},
                                {"path": "src/a.py.license", "target": "../docs/shared.license"}], rng.randint(1, 2)):
            if not any(f["path"] == cand["path"] for f in files) and any(f["path"] == cand["path"][:-len(".license")] for f in files):
                symlinks.append(cand)
                if cand["target"].endswith("shared.license") and not any(f["path"] == "docs/shared.license" for f in files):
                    files.append({"path": "docs/shared.license", "content": "SPDX-FileCopyrightText: 2015 Shared Holder\n"})
    world = {"files": files, "symlinks": symlinks, "sentinel": sentinel, "dirs": empty_dirs,
             "home": [{"path": ".gitconfig-decoy", "content": "[user]\n"}, {"path": ".config/reuse/x", "content": "x\n"}]}
    git = rng.chance(0.6)
    submodules = []
    if git:
        files.append({"path": ".gitignore", "content": "ignored_dir/\n*.log\nsecret.cfg\nbuild/\ndist/\n.tox/\n.venv/\n"})
        for extra in ("build/b.py", "dist/d.py", ".tox/t.py", ".venv/v.py"):
            if rng.chance(0.7):
                files.append({"path": extra, "content": "g = 1\n"})
        files.append({"path": "ignored_dir/x.py", "content": "z = 3\n"})
        files.append({"path": "src/debug.log", "content": "log\n"})
        files.append({"path": "src/deep/trace.log", "content": "trace\n"})
        files.append({"path": "secret.cfg", "content": "k = v\n"})
        if rng.chance(0.12):
            # ignored entries whose names are legal but not valid UTF-8 (today every command then stops with a
            # UnicodeDecodeError while reading Git's answer and touches nothing)
            files.append({"path": "src/caf\udce9.log", "content": "latin-1 name\n"})
            files.append({"path": "ignored_dir/b\udcfcild.py", "content": "w = 4\n"})
        untracked = []
        if rng.chance(0.5):
            files.append({"path": "src/untracked.py", "content": "u = 1\n"})
            untracked.append("src/untracked.py")
        if rng.chance(0.35):
            # an ignored file below a directory that is wholly untracked
            files.append({"path": "newdir/e.log", "content": "e\n"})
            files.append({"path": "newdir/n.py", "content": "n = 1\n"})
            untracked += ["newdir/n.py"]
        world["git"] = {"commit": True, "untracked": untracked}
        if rng.chance(0.35):
            # a submodule (by .gitmodules): its files are excluded, from whichever directory the command is started
            files.append({"path": ".gitmodules", "content": '[submodule "vendored"]\n\tpath = vendored/lib\n\turl = https://example.org/lib.git\n'})
            files.append({"path": "vendored/lib/v.py", "content": "v = 1\n"})
            files.append({"path": "vendored/lib/util/h.c", "content": "int h;\n"})
            files.append({"path": "vendored/own.py", "content": "own = 1\n"})
            submodules = ["vendored/lib"]
        if rng.chance(0.35):
            # ignore rules that live in the user's Git configuration, not in the tree
            world["home"] = world["home"] + [{"path": ".gitconfig", "content": "[core]\n\texcludesFile = ~/.gitignore_global\n"},
                                             {"path": ".gitignore_global", "content": "*.local.py\nscratch/\n"}]
            files.append({"path": "src/settings.local.py", "content": "secret = 1\n"})
            files.append({"path": "scratch/notes.py", "content": "n = 1\n"})
            world["git"]["use_home_config"] = True
    all_paths = [f["path"] for f in files] + [l["path"] for l in symlinks]
    ann_files = [p for p in all_paths if p.startswith(("src/", "docs/")) and not p.endswith((".license", ".log"))
                 and p not in ("src/link_file.py", "src/linkdir", "docs/rel_link.py", "src/empty.py", "docs/COPYING.md")]
    steps = [{"argv": ["--version"], "observe": [{"kind": "git_ignored", "paths": sorted(all_paths)}] if git else []}]

    def elsewhere(argv_head, names):
        """The same annotate command started from another directory: names are spelled relative to it."""
        real_dirs = sorted({posixpath.dirname(p) for p in all_paths if "/" in p} & {"src", "docs", "src/deep", "vendored"})
        if not git or not rng.chance(0.3):
            return argv_head + names, None
        cwd = rng.pick(real_dirs + [".."])
        if cwd == "..":
            return ["--root", "p"] + argv_head + [posixpath.join("p", n) for n in names], cwd
        return argv_head + [posixpath.relpath(n, cwd) for n in names], cwd

    def mp(argv):
        st = {"argv": list(argv)}
        if rng.chance(0.5):
            st["argv"] = ["--no-multiprocessing"] + st["argv"]
        else:
            st["pool"] = {"n": rng.pick([1, 2, 3]), "key": rng.randrange(1 << 30)}
        st["readdir_key"] = rng.randrange(1 << 30)
        return st

    for _ in range(rng.randint(1, 6)):
        k = rng.wpick([(4, "ro"), (5, "annotate-r"), (3, "annotate"), (2, "convert"), (2, "download"), (1, "spdx-o"), (1, "invalid")])
        if k == "ro":
            argv = rng.pick([["lint"], ["lint", "--json"], ["lint", "-q"], ["lint", "--lines"], ["spdx"], ["supported-licenses"],
                             ["--help"], ["lint", "--help"], ["annotate", "--help"], ["lint-file"] + rng.sample(ann_files, min(2, len(ann_files))),
                             ["spdx", "--add-license-concluded", "--creator-person", "P"], ["download", "--help"]])
            st = mp(argv)
            if rng.chance(0.3):
                t = rng.pick(ann_files)
                st["faults"] = [rng.pick([{"op": "open-r", "path": t, "errno": "EACCES"}, {"op": "read", "path": t, "errno": "EIO", "after": 3}])]
            steps.append(st)
        elif k == "annotate-r":
            dirs = rng.sample([".", "src", "src", "docs", "src/deep"], rng.randint(1, 2))
            dirs = sorted(set(dirs))
            opts = rng.sample([["--skip-unrecognised"], ["--fallback-dot-license"], ["--force-dot-license"], ["--skip-existing"],
                               ["--merge-copyrights"], ["--template", "tpl"], ["--year", "2001"], ["--exclude-year"]], rng.randint(1, 3))
            flat = [x for o in opts for x in o]
            if sum(o in flat for o in ("--skip-unrecognised", "--fallback-dot-license", "--force-dot-license")) > 1:
                flat = [x for x in flat if x not in ("--fallback-dot-license", "--force-dot-license")]
            if not {"--skip-unrecognised", "--fallback-dot-license", "--force-dot-license"} & set(flat) and rng.chance(0.8):
                flat.append("--skip-unrecognised")
            if "--year" in flat and "--exclude-year" in flat:
                flat.remove("--exclude-year")
            if submodules and rng.chance(0.4):
                dirs = sorted(set(dirs + [rng.pick(["vendored", "vendored/lib", "vendored/lib/util"])]))
            argv, cwd = elsewhere(["annotate", "-c", rng.pick(G.HOLDERS), "-l", rng.pick(G.VALID), "-r"] + flat, dirs)
            st = mp(argv)
            if cwd:
                st["cwd"] = cwd
            if git and rng.chance(0.12):
                # Git answers more slowly than any deadline the tool may have set for it (huge work tree, cold cache)
                st["slow_git"] = rng.pick(["ls-files", "status", "rev-parse"])
            steps.append(st)
        elif k == "annotate":
            names = rng.sample(ann_files, min(len(ann_files), rng.randint(1, 3)))
            file_links = [l["path"] for l in symlinks if l["path"] in ("src/link_file.py", "docs/rel_link.py")]
            if file_links and rng.chance(0.3):
                # a symlink the user names explicitly counts as named (the tool writes through it or next to IT);
                # nothing next to its target may appear
                names.append(rng.pick(file_links))
            opts = rng.pick([[], ["--fallback-dot-license"], ["--force-dot-license"], ["--skip-unrecognised"], ["--style", "python"],
                             ["--multi-line"], ["--contributor", "Bob"]])
            argv, cwd = elsewhere(["annotate", "-c", rng.pick(G.HOLDERS), "-l", rng.pick(G.VALID)] + opts, names)
            st = mp(argv)
            if cwd:
                st["cwd"] = cwd
            if rng.chance(0.3):
                # the disk fills up while annotate writes - whatever file it writes to in that directory (the plan cannot
                # know the name of a temporary file): what is left behind must still be only the named files and their
                # .license companions
                d = posixpath.dirname(rng.pick(names))
                st["faults"] = [rng.pick([{"op": "write", "path_glob": (d + "/*") if d else "*", "errno": "ENOSPC", "after": rng.pick([0, 7, 40])},
                                          {"op": "write", "path_glob": (d + "/*") if d else "*", "errno": "EIO", "after": 0},
                                          {"op": "open-w", "path_glob": (d + "/*") if d else "*", "errno": rng.pick(["EACCES", "EROFS", "EDQUOT"])}])]
            steps.append(st)
        elif k == "convert":
            st = mp(["convert-dep5"])
            if rng.chance(0.4):
                st["faults"] = [rng.pick([{"op": "open-w", "path": "REUSE.toml", "errno": "ENOSPC"},
                                          {"op": "write", "path": "REUSE.toml", "errno": "ENOSPC", "after": 10},
                                          {"op": "open-w", "path": "REUSE.toml", "errno": "EISDIR"}])]
            steps.append(st)
        elif k == "download":
            ids = rng.sample(G.VALID + ["LicenseRef-Custom", "Foo-1.0"], rng.randint(1, 2))
            if rng.chance(0.5) and "MIT" not in ids:
                ids[0] = "MIT"  # a target that usually exists already
            if dangling_dest and rng.chance(0.7) and "0BSD" not in ids:
                ids[-1] = "0BSD"
            argv = rng.pick([["download"] + ids, ["download", "--all"], ["download", "-o", "docs/downloaded.txt", ids[0]],
                             ["download", "-o", "third_party/x.txt", ids[0]],
                             ["download", "--source", "srclic", "LicenseRef-Custom"],
                             ["download", "--source", "srclic/LicenseRef-Custom.txt", "LicenseRef-Custom+"],
                             ["download", "--source", "srclic", "-o", "src/a.py", "LicenseRef-Custom"],
                             # an 'identifier' is free text on the command line: no such licence exists, nothing may appear
                             ["download", "../NOTICE"], ["download", "../../s/dropped"], ["download", "sub/dir/MIT"]])
            st = mp(argv)
            st["net"] = {i: rng.pick([{"kind": "ok", "text": f"text {i}\n"}, {"kind": "ok", "text": f"text {i}\n"}, {"kind": "http", "code": 404}, {"kind": "urlerror"}]) for i in G.VALID}
            steps.append(st)
        elif k == "spdx-o":
            target = rng.pick(["out.spdx", "docs/bom.spdx.json", "notspdx.txt"])
            if rng.chance(0.3):
                # the project stops being loadable (somebody breaks REUSE.toml) and the output names a file that exists:
                # the command fails and must not have emptied it
                steps.append({"user": {"op": "write", "path": "REUSE.toml", "content": "version = 1\n[[annotations]\npath = \n"}})
                target = rng.pick([t for t in ("src/a.py", "docs/d.md", "srclic/LicenseRef-Custom.txt") if any(f["path"] == t for f in files)] or [target])
            steps.append(mp(["spdx", "-o", target]))
        else:
            steps.append(mp(rng.pick([["frobnicate"], ["lint", "--nope"], ["annotate", "src/a.py"], ["annotate", "-c", "X", "nonexistent.py"],
                                      ["annotate", "-c", "X", "--single-line", "--multi-line", "src/a.py"], ["lint-file", "/etc/passwd"],
                                      ["download"], ["--root", "nonexistent", "lint"]])))
    return {"prop": PROP, "seed": seed, "world": world, "submodules": submodules,
            "variants": [{"hashseed": rng.randrange(8), "steps": steps}]}


# ---- model ---------------------------------------------------------------------------------------
def _covered_model(tree, links, ignored, under, under_flags=()):
    """Files that recursion below *under* may reach according to the statement."""
    out = set()
    for p, size in tree.items():
        if under not in (".", "") and not p.startswith(under.rstrip("/") + "/"):
            continue
        parts = p.split("/")
        if any(d in EXCL_DIR for d in parts[:-1]):
            continue
        if any(parts[i] == "subprojects" for i in range(len(parts) - 2)) and "--include-meson-subprojects" not in under_flags:
            continue
        if any(rx.match(parts[-1]) for rx in EXCL_FILE):
            continue
        if size == 0:
            continue
        if any(p == l or p.startswith(l + "/") for l in links):
            continue
        if any(p == i or p.startswith(i.rstrip("/") + "/") for i in ignored):
            continue
        out.add(p)
    return out


def _parse_annotate(argv):
    a = argv[argv.index("annotate") + 1:]
    takes = {"-c", "--copyright", "-l", "--license", "--contributor", "-y", "--year", "-s", "--style", "--copyright-prefix",
             "--copyright-style", "-t", "--template"}
    names, rec = [], False
    i = 0
    while i < len(a):
        if a[i] in takes:
            i += 2
            continue
        if a[i] in ("-r", "--recursive"):
            rec = True
        elif not a[i].startswith("-"):
            names.append(a[i])
        i += 1
    return names, rec


def oracle(case, results):
    vs = []
    world = case["world"]
    tree = {f["path"]: len(f.get("content", "").encode("utf-8", "surrogateescape")) for f in world["files"]}
    links = {l["path"] for l in world.get("symlinks", [])}
    steps = case["variants"][0]["steps"]
    recs = results[0]["records"]
    ignored = set()
    if recs and recs[0].get("obs"):
        ignored = set(recs[0]["obs"][0]) if isinstance(recs[0]["obs"][0], list) else set()
    if ".gitmodules" in tree and world.get("git"):
        ignored |= set(case.get("submodules") or [])
    # directories that are wholly untracked (for the known-finding classification)
    untracked = set((world.get("git") or {}).get("untracked") or [])
    for st, rec in zip(steps, recs):
        if "argv" not in st:
            continue
        argv = [a for a in st["argv"] if a != "--no-multiprocessing"]
        diff = rec.get("diff") or {}
        changed = {}
        for label, d in diff.items():
            b, a = d.get("before"), d.get("after")
            if b and a and b[0] == "d" and a[0] == "d" and b == a:
                continue  # directory mtime: implied by an allowed creation/removal, judged through the entry itself
            changed[label] = d
        cmd = argv[0] if argv else ""
        if cmd == "--root" and len(argv) > 2:
            cmd = argv[2]
        allowed = set()
        allow_new_dirs = set()
        helpish = "--help" in argv or "--version" in argv
        if helpish or cmd in ("lint", "lint-file", "supported-licenses", "--help", "--version", "frobnicate"):
            pass
        elif cmd == "spdx":
            if "-o" in argv and rec.get("exit") != 2:
                # a run that is refused (usage or configuration error) has nothing to put there
                allowed.add(posixpath.normpath(argv[argv.index("-o") + 1]))
        elif cmd == "convert-dep5":
            allowed |= {"REUSE.toml", ".reuse/dep5"}
        elif cmd == "download":
            if "-o" in argv:
                allowed.add(posixpath.normpath(argv[argv.index("-o") + 1]))
            else:
                for label, d in changed.items():
                    if label.startswith("LICENSES/") and d.get("before") is None and "/" not in label[len("LICENSES/"):]:
                        allowed.add(label)
                allow_new_dirs.add("LICENSES")
        elif cmd == "annotate":
            names, recursive = _parse_annotate(argv)
            cwd = st.get("cwd") or "."
            for n in names:
                if cwd == "..":
                    n = posixpath.normpath(n)
                    n = "." if n == "p" else (n[2:] if n.startswith("p/") else n)
                else:
                    n = posixpath.normpath(posixpath.join(cwd, n))
                if n in tree or n in links:
                    allowed |= {n, n + ".license"}
                    for l in world.get("symlinks", []):
                        if l["path"] == n:
                            t = l["target"]
                            allowed.add(t if t.startswith("@S/") else posixpath.normpath(posixpath.join(posixpath.dirname(n), t)))
                elif recursive:
                    for f in _covered_model(tree, links, ignored, n):
                        allowed |= {f, f + ".license"}
        # what the .license companions of the files this command may write point to, when they are symlinks
        via_link = set()
        for l in world.get("symlinks", []):
            if l["path"].endswith(".license") and l["path"] in allowed:
                t = l["target"]
                via_link.add(t if t.startswith("@S/") else posixpath.normpath(posixpath.join(posixpath.dirname(l["path"]), t)))
        for label, d in sorted(changed.items()):
            if label in via_link and cmd == "annotate":
                vs.append({"sig": "C15/annotate/wrote-through-symlinked-dot-license",
                           "detail": f"{label}: {d.get('before')} -> {d.get('after')} argv={argv}"})
                continue
            if label in allowed:
                continue
            if label.startswith("@S/"):
                vs.append({"sig": f"C15/{cmd}/sentinel-changed", "detail": f"{label}: {d.get('before')} -> {d.get('after')} argv={argv}"})
                continue
            if label.startswith("@H/"):
                vs.append({"sig": f"C15/{cmd}/home-changed", "detail": f"{label} argv={argv}"})
                continue
            if label in allowed:
                continue
            if d.get("before") is None and d.get("after") and d["after"][0] == "d" and (
                    label in allow_new_dirs or any(a.startswith(label + "/") for a in allowed)):
                continue  # a missing parent directory of an allowed destination
            what = "changed-tree"
            if cmd == "annotate":
                base = label[:-len(".license")] if label.endswith(".license") else label
                if any(base == m or base.startswith(m + "/") for m in (case.get("submodules") or [])):
                    what = "touched-submodule"
                elif any(base == i or base.startswith(i.rstrip("/") + "/") for i in ignored):
                    top = base.split("/")[0]
                    # tracked status is a property of the initial work tree, not of files created by earlier steps
                    initial = [f["path"] for f in world["files"]]
                    wholly_untracked = not any(p.split("/")[0] == top and p not in untracked and p not in ignored
                                               for p in initial if "/" in p)
                    what = "touched-ignored" + ("/below-untracked-dir" if wholly_untracked else "")
                elif any(base == l or base.startswith(l + "/") for l in links):
                    what = "touched-symlink"
                elif base in tree and tree[base] == 0:
                    what = "touched-empty-file"
                elif base in tree and base not in _covered_model(tree, links, ignored, "."):
                    what = "touched-excluded"
                else:
                    what = "touched-unnamed"
            elif cmd == "download" and d.get("before") is not None:
                what = "altered-existing"
            vs.append({"sig": f"C15/{cmd}/{what}", "detail": f"{label}: {d.get('before')} -> {d.get('after')} touched={d.get('touched')}; argv={argv}; allowed={sorted(allowed)[:12]}"})
        if cmd == "convert-dep5" and rec.get("exit") != 0 and ".reuse/dep5" in tree:
            # 'replaces': a run that did not produce REUSE.toml must not have taken .reuse/dep5 away
            gone = (diff.get(".reuse/dep5") or {"after": 1}).get("after") is None
            if gone:
                vs.append({"sig": "C15/convert-dep5/removed-without-replacement",
                           "detail": f"exit={rec.get('exit')} exc={(rec.get('exc') or {}).get('type')} fired={rec.get('fired')}: .reuse/dep5 is gone, REUSE.toml: {(diff.get('REUSE.toml') or {}).get('after')}"})
        if cmd == "convert-dep5" and rec.get("exit") == 0:
            if (diff.get(".reuse/dep5") or {}).get("after") is not None or (diff.get("REUSE.toml") or {}).get("after") is None:
                vs.append({"sig": "C15/convert-dep5/not-replaced", "detail": str({k: diff[k] for k in diff if k in ('.reuse/dep5', 'REUSE.toml')})[:300]})
        # advance the model
        for label, d in diff.items():
            if label.startswith("@"):
                continue
            a = d.get("after")
            if a is None:
                tree.pop(label, None)
                links.discard(label)
            elif a[0] == "f":
                tree[label] = a[2]
            elif a[0] == "l":
                links.add(label)
    return vs


def account(case, results, cov):
    steps = case["variants"][0]["steps"]
    recs = results[0]["records"]
    mutating = any("argv" in s and any(c in s["argv"] for c in ("annotate", "convert-dep5", "download")) or ("argv" in s and "-o" in s["argv"]) for s in steps)
    fired = any(k for r in recs for k in r.get("fired", []) if not k.startswith("short"))
    if mutating or fired:
        cov.nontrivial.add(digest(case["variants"]) + digest(case["world"]))
    for s in steps:
        if "argv" in s:
            a = [x for x in s["argv"] if x != "--no-multiprocessing"]
            cov.bump("cmd." + (a[0] if a else "?") + (".recursive" if "-r" in a else ""))
    changed = sum(1 for r in recs for k, d in (r.get("diff") or {}).items() if not (d.get("before") and d.get("after") and d["before"][0] == "d"))
    cov.bump("entries_changed_total", changed)
    if (case["world"].get("git") or {}) and any(f["path"] == "newdir/e.log" for f in case["world"]["files"]):
        cov.bump("worlds_with_ignored_file_below_untracked_dir")
    if len(cov.samples) < 3 and mutating:
        cov.samples.append({"seed": case["seed"], "git": bool(case["world"].get("git")), "symlinks": case["world"].get("symlinks"),
                            "steps": [s.get("argv") for s in steps]})
