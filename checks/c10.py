"""C10 - re-running annotate with the same arguments changes nothing.

Histories: annotate; the same annotate again (N = 2..5), under a simulated clock that advances
between the runs but stays inside one calendar year. Backbone: a complete sweep of every
--style value x {default, --multi-line} x body class; seeded sampling fills the other options.
"""
from checks import annot as A
from rsim import gen as G
from rsim.prf import Rng, digest

PROP = "C10"
LEVEL = "exploration"
TIERS = {
    "quick": {"cases": 350, "budget_s": 150, "batch": 64},
    "thorough": {"cases": 6000, "budget_s": 900, "batch": 64},
}
RULE = (
    "prelude (complete): every --style value x {default, --multi-line where the style supports both} x body class {empty, code, "
    "comment in the same style, shebang-like first line, leading blank lines, CRLF, no final newline} on a file of unknown "
    "extension, plus every style through its own file extension: annotate three times with identical arguments. Then seeded "
    "histories (N = 2..5 identical runs) over copyright prefix, --year / --exclude-year / default year from the simulated clock, "
    "several holders and licences, contributors, --merge-copyrights, --skip-existing, --force-dot-license, custom and commented "
    "templates, headers longer than 4 KiB (60 holders), several files in one invocation after per-file set-up commands "
    "(different holders, case variants of one name, mixed prefixes before --merge-copyrights), and - in a fifth to a half of the "
    "histories - a fresh interpreter with another PYTHONHASHSEED for every command, as separate invocations have; the clock advances between runs by seconds to months inside one calendar year. --no-replace is excluded (documented "
    "as additive). Non-trivial = at least two runs executed with exit 0; distinct = distinct plan digests"
)
EXPECTED_PROBES = ["annotate.write", "header.existing_header_merged", "header.shebang_kept", "annotate.skip_existing",
                   "annotate.force_dot_license"]
SHRINK_CONTENT = True


LONG_HOLDERS = A.LONG_HOLDERS


def _case(seed, style, opts, bodykind, name, n, clocks, hashseed=0, extra_files=()):
    content = A.body(style, bodykind)
    files = [{"path": name, "content": content}] + list(extra_files)
    steps = []
    for k in range(n):
        steps.append({"argv": ["--no-multiprocessing"] + A.argv_of(opts, [name]), "clock": clocks[k], "phase": "repeat"})
    return {"prop": PROP, "seed": seed, "world": {"files": files}, "style": style, "opts": opts, "body": bodykind, "name": name,
            "variants": [{"hashseed": hashseed, "steps": steps}]}


def prelude_cases(tier, verif_seed):
    cases = []
    n = 0
    clocks = ["2024-03-01T10:00:00", "2024-03-01T10:00:07", "2024-11-30T23:59:59"]
    for style in G.STYLE_NAMES:
        modes = [False] + ([True] if G.can_multi(style) and G.can_single(style) else [])
        for multi in modes:
            for bk in A.BODY_KINDS:
                opts = {"holders": ["Jane Doe"], "licenses": ["MIT"], "style": style}
                if multi:
                    opts["multi_line"] = True
                cases.append(_case(20_000 + n, style, opts, bk, "x.foo", 3, clocks, hashseed=n % 8))
                n += 1
        for bk in ("code", "comment"):
            opts = {"holders": ["Jane Doe", "ACME Corp."], "licenses": ["GPL-3.0-or-later"]}
            cases.append(_case(20_000 + n, style, opts, bk, "y" + G.STYLES[style][7], 3, clocks, hashseed=n % 8))
            n += 1
    # headers longer than the 4 KiB window in which the linter looks for tags
    for style, multi in (("python", False), ("c", False), ("html", False), ("cpp", True), ("tex", False)):
        for target in ("file", "dot-license"):
            opts = {"holders": LONG_HOLDERS, "licenses": ["MIT", "Apache-2.0"]}
            if multi:
                opts["multi_line"] = True
            if target == "dot-license":
                opts["force_dot_license"] = True
                opts.pop("multi_line", None)
            cases.append(_case(20_000 + n, style, opts, "shebang" if style in ("python", "cpp") else "code", "z" + G.STYLES[style][7], 3, clocks, hashseed=n % 8))
            n += 1
    return cases


def gen_case(seed, tier, index=0):
    case = _gen_case(seed, tier, index)
    rng = Rng(seed, "c10-age")
    if rng.chance(0.4):
        # how old the files are when the history starts (the default is 2001); a command that writes a file gives it
        # the simulated instant of that command
        age = rng.pick(["1999-05-05T00:00:00", "2023-02-02T02:02:02", "2024-01-01T00:00:01", "2037-01-01T00:00:00"])
        case["world"]["mtimes"] = {f["path"]: age for f in case["world"]["files"]}
    return case


def _gen_case(seed, tier, index=0):
    rng = Rng(seed, "c10")
    if rng.chance(0.35):
        return _gen_multi(seed, rng)
    style = rng.pick(G.STYLE_NAMES)
    opts = {"holders": rng.sample(A.SAFE_HOLDERS, rng.randint(0, 3)), "licenses": rng.sample(A.LICENSES, rng.randint(0, 2))}
    if rng.chance(0.3):
        opts["contributors"] = rng.sample(A.CONTRIBUTORS, rng.randint(1, 2))
    if not (opts["holders"] or opts["licenses"] or opts.get("contributors")):
        opts["holders"] = ["Jane Doe"]
    if rng.chance(0.5):
        opts["prefix"] = rng.pick(sorted(A.PREFIXES))
    y = rng.randrange(4)
    if y == 0:
        opts["years"] = [rng.pick(["1999", "2015", "2024"])]
    elif y == 1:
        opts["years"] = sorted(rng.sample(["2001", "2010", "2020", "2023"], 2))
    elif y == 2:
        opts["exclude_year"] = True
    use_ext = rng.chance(0.5)
    name = ("m" + G.STYLES[style][7]) if use_ext else "m.unknownext"
    if not use_ext:
        opts["style"] = style
    if G.can_multi(style) and G.can_single(style) and rng.chance(0.4):
        opts["multi_line"] = True
    extra = []
    t = rng.randrange(6)
    if t == 0:
        opts["template"] = "full"
    elif t == 1:
        opts["template"] = "nocontrib"
    elif t == 2 and style == "python":
        opts["template"] = "pycommented"
    if opts.get("template"):
        extra = A.template_files([opts["template"]])
        if rng.chance(0.5):
            # the other variant of the same template name next to it: X.jinja2 is preferred over X.commented.jinja2,
            # however the directory happens to be listed
            fn = A.TEMPLATES[opts["template"]][0]
            stem = fn.split(".")[0]
            other = f"{stem}.jinja2" if ".commented." in fn else f"{stem}.commented.jinja2"
            extra.append({"path": f".reuse/templates/{other}", "content": "{% for copyright_line in copyright_lines %}\n"
                          + ("# " if ".commented." in other else "") + "{{ copyright_line }}\n{% endfor %}\n"
                          + ("# " if ".commented." in other else "") + "Another variant\n"
                          + "{% for expression in spdx_expressions %}\n" + ("# " if ".commented." in other else "")
                          + "SPDX-License-Identifier: {{ expression }}\n{% endfor %}\n"})
            extra += [{"path": f".reuse/templates/{x}", "content": "unrelated\n"} for x in ("aaa.jinja2", "zzz.commented.jinja2")]
        if not A.TEMPLATES[opts["template"]][2] and not (opts["holders"] or opts["licenses"]):
            # a template that renders no contributors needs something it does render, else the header carries no tag at all
            opts["holders"] = ["Jane Doe"]
    if rng.chance(0.05):
        opts["holders"] = LONG_HOLDERS[: rng.randint(45, 60)]
    awkward = rng.randrange(18)
    if awkward == 0:
        # one holder, several years, given as ready-made notices in ONE invocation (kept verbatim by the tool)
        pfx, h = rng.pick(["Copyright", "SPDX-FileCopyrightText:", "\u00a9", "Copyright (C)"]), rng.pick(A.SAFE_HOLDERS)
        opts["holders"] = [f"{pfx} {y} {h}" for y in rng.sample(["2017", "2019", "2021", "2024"], rng.randint(2, 3))]
        opts.pop("prefix", None)
        if rng.chance(0.7):
            opts["merge_copyrights"] = True
    elif awkward == 1:
        # a contributor whose text ends in the comment terminator of some OTHER style: either refused or written so
        # that the next run reads back what this one wrote
        toks = [t for t in G.TERMINATORS if t != G.STYLES[style][2][2]]
        opts["contributors"] = [rng.pick(A.CONTRIBUTORS) + " " + rng.pick(toks)]
    foreign_head = None
    if awkward == 2:
        # the file starts with two notices of one holder under a prefix other than the requested one: the first merge
        # takes the majority prefix, the second run meets a tie - and must leave the line alone
        h = rng.pick(A.SAFE_HOLDERS)
        pfx = rng.pick(["symbol", "string", "string-c", "spdx-symbol", "string-symbol"])
        ys = sorted(rng.sample(["2015", "2017", "2018", "2019"], 2))
        foreign_head = "\n".join(A.copyright_line(h, pfx, y) for y in ys)
        opts["holders"], opts["merge_copyrights"] = [h], True
        opts["years"] = [rng.pick(["2020", "2016", "2019"])]
        opts.pop("exclude_year", None)
        if rng.chance(0.5):
            opts.pop("prefix", None)
    special_content = None
    if awkward == 3:
        # a binary or uncommentable file and an explicit --style: the header goes to FILE.license in that style, and the
        # next run has to find it there
        name = rng.pick(["m.png", "m.json", "m.bin"])
        special_content = '{"a": 1}\n' if name == "m.json" else G.BINARY
        opts["style"] = rng.pick(["python", "c", "html", "cpp", "julia", "lisp"])
        opts.pop("multi_line", None)
        opts.pop("template", None)
        extra = []
    if awkward == 6 and G.can_single(style):
        # a contributor whose text ends in the very characters that open a comment line in this style
        opts["contributors"] = [rng.pick(["Cray Research In", "Uptime 100", "Jean-Lu", "Studio"]) + G.STYLES[style][0]]
        opts.pop("template", None)
        extra = []
    if awkward == 5:
        # a contributor whose name looks like a notice to the reader of copyright lines
        opts["contributors"] = [rng.pick(["Copyright Office", "Copyright Clearance Center <ccc@example.org>", "The Copyright (C) Collective",
                                          "\u00a9 Studio"])]
        opts.pop("template", None)
        extra = []
    if rng.chance(0.15):
        opts["merge_copyrights"] = True
    if rng.chance(0.1) and foreign_head is None:
        opts["skip_existing"] = True
    if rng.chance(0.15):
        opts["force_dot_license"] = True
        opts.pop("multi_line", None)
    n = rng.randint(2, 5)
    clocks = _clocks(rng, n)
    case = _case(seed, style, opts, rng.pick(A.BODY_KINDS), name, n, clocks, hashseed=rng.randrange(8), extra_files=extra)
    if special_content is not None:
        case["world"]["files"][0]["content"] = special_content
        case["body"] = "not-text"
    if awkward == 4 and "/" not in name:
        # somebody else (xargs -P, make -j, a pre-commit hook) re-runs the same command on ANOTHER file of the directory
        # while a re-run is under way: both files stay as they were, both commands succeed
        sib = "sibling" + (G.STYLES[style][7] if use_ext else ".unknownext")
        case["world"]["files"].append({"path": sib, "content": A.body(style, "code")})
        steps = case["variants"][0]["steps"]
        steps.insert(0, {"argv": ["--no-multiprocessing"] + A.argv_of(opts, [sib]), "clock": steps[0]["clock"], "phase": "setup"})
        reps = [st for st in steps if st.get("phase") == "repeat"]
        for st in reps[1:]:
            st["mutations"] = [{"at": {"mut_index": rng.randrange(0, 3)}, "do": {"op": "run", "argv": ["--no-multiprocessing"] + A.argv_of(opts, [sib])}}]
        case["names"] = [name, sib]
        case["body"] = "concurrent-sibling"
    if foreign_head is not None and not opts.get("force_dot_license"):
        case["world"]["files"][0]["content"] = G.comment(style, foreign_head, multi=not G.can_single(style)) + "\n\n" + G.body_for(style)
        case["body"] = "foreign-notices"
    if awkward in (1, 5, 6):
        case["may_refuse"] = True
    if rng.chance(0.2):
        _cross_seed(case, rng)
    if rng.chance(0.12):
        _stdout_dies(case, rng)
    if rng.chance(0.1) and not case.get("may_refuse"):
        # the very first run dies of a failing write (disk full after some bytes); the runs after it are the ones compared.
        # Whatever the first run left, the later ones must agree with each other and must not leave a header in the file
        # AND in a .license companion
        reps = [st for st in case["variants"][0]["steps"] if st.get("phase") == "repeat"]
        if len(reps) >= 3:
            tgt = name + ".license" if opts.get("force_dot_license") else name
            reps[0]["faults"] = [{"op": "write", "path": tgt, "errno": rng.pick(["ENOSPC", "EFBIG", "EIO"]), "after": rng.pick([0, 45, 80, 120, 200])}]
            reps[0]["buffer_size"] = 16
            reps[0]["phase"] = "torn"
            if rng.chance(0.6) and not any(o in opts for o in ("force_dot_license", "skip_unrecognised", "style")):
                # an option that is a no-op for a file of a recognised type - also when the write fails
                opts["fallback_dot_license"] = True
                for st in case["variants"][0]["steps"]:
                    if st.get("phase") in ("repeat", "torn"):
                        st["argv"] = ["--no-multiprocessing"] + A.argv_of(opts, [name])
    if rng.chance(0.5):
        # the file system lists directories in another order for every command
        for st in case["variants"][0]["steps"]:
            st["readdir_key"] = rng.randrange(1 << 30)
    return case


def _stdout_dies(case, rng):
    """The reader of stdout goes away during a re-run (reuse annotate ... | head -1): whatever the command then
    does, the files must stay as the first run left them."""
    reps = [st for st in case["variants"][0]["steps"] if st.get("phase") == "repeat"]
    for st in reps[1:]:
        st["stdout_fail_after"] = rng.pick([0, 10, 40, 120])


ISO_EDGE_FIRST = ["2023-01-01T00:00:01", "2022-01-01T10:00:00", "2022-01-02T23:59:59", "2021-01-03T12:00:00", "2027-01-02T08:00:00",
                  "2028-01-01T00:30:00", "2016-01-03T09:00:00"]   # calendar year one more than the ISO-week year
ISO_EDGE_LAST = ["2024-12-30T09:00:00", "2024-12-31T23:59:58", "2025-12-29T12:00:00", "2019-12-30T00:00:01", "2030-12-31T18:00:00",
                 "2026-12-31T23:00:00", "2020-02-29T12:00:00"]    # calendar year one less than the ISO-week year (and a leap day)


def _clocks(rng, n):
    import datetime
    if rng.chance(0.2):
        # the edges of the calendar: days on which the ISO-week year, or a clock in another time zone, names another year
        if rng.chance(0.5):
            first = datetime.datetime.fromisoformat(rng.pick(ISO_EDGE_FIRST))
            rest = sorted(rng.sample(range(5 * 86400, 300 * 86400), n - 1))
            return [first.isoformat(timespec="seconds")] + [(first + datetime.timedelta(seconds=s)).isoformat(timespec="seconds") for s in rest]
        last = datetime.datetime.fromisoformat(rng.pick(ISO_EDGE_LAST))
        back = sorted(rng.sample(range(5 * 86400, 40 * 86400), n - 1), reverse=True)
        return [(last - datetime.timedelta(seconds=s)).isoformat(timespec="seconds") for s in back] + [last.isoformat(timespec="seconds")]
    year = rng.pick([2023, 2024, 2031])
    secs = sorted(rng.sample(range(0, 360 * 86400), n))
    return [(datetime.datetime(year, 1, 1) + datetime.timedelta(seconds=s)).isoformat(timespec="seconds") for s in secs]


def _cross_seed(case, rng):
    """Every command of the history runs in a fresh interpreter with its own string-hash seed, as separate
    invocations of the real CLI do (PYTHONHASHSEED is random per process by default)."""
    seeds = rng.sample(range(8), 8)
    for k, st in enumerate(case["variants"][0]["steps"]):
        st["hashseed"] = seeds[k % 8]
    case["cross_seed"] = True


CASE_PAIRS = [("jane doe", "Jane Doe"), ("acme corp.", "ACME Corp."), ("john roe", "John Roe")]


def _unrecognised(n):
    return n.endswith((".txt", ".mod", ".cfg", ".example", ".dist", ".sample", ".orig2")) and not n.endswith(("CMakeLists.txt", "go.mod", "setup.cfg"))


def _gen_multi(seed, rng):
    """Several files, each first annotated on its own (set-up steps, not judged), then the same command over all
    of them N times. The tool iterates a set of paths, so the processing order follows the hash seed."""
    k = rng.randint(2, 4)
    styles = [rng.pick(["python", "c", "cpp", "html", "tex", "haskell", "jinja", "julia", "lisp"]) for _ in range(k)]
    names = [f"d{i}/m{i}{G.STYLES[styles[i]][7]}" for i in range(k)]
    files = [{"path": n, "content": A.body(styles[i], rng.pick(["code", "empty", "comment"]))} for i, n in enumerate(names)]
    if rng.chance(0.3):
        names.append("d9/data.json")
        files.append({"path": "d9/data.json", "content": "{}\n"})
    if rng.chance(0.3):
        # files that share a suffix but not a comment style (the style comes from the whole name)
        group = rng.pick([["Cargo.lock", "yarn.lock", "poetry.lock"], ["CMakeLists.txt", "notes.txt"], ["go.mod", "other.mod"],
                          ["setup.cfg", "tool.cfg"], ["Makefile", "Jenkinsfile", "ROOT"]])
        for j, g in enumerate(group):
            names.append(f"g{j}/{g}")
            files.append({"path": f"g{j}/{g}", "content": "content of " + g + "\n"})
    if rng.chance(0.25):
        # names with stacked suffixes: the last one decides the type (none is known here), the inner ones must not - least
        # of all differently from one process to the next
        for j, g in enumerate(rng.sample(["values.yaml.j2.example", "site.html.j2.dist", "conf.py.in.sample", "main.c.py.orig2"], rng.randint(1, 2))):
            names.append(f"s{j}/{g}")
            files.append({"path": f"s{j}/{g}", "content": "content of " + g + "\n"})
    steps = []
    clocks = _clocks(rng, 24)
    flavour = rng.pick(["holders", "holders", "case-variants", "merge-tie", "plain"])
    ci = 0
    if flavour != "plain":
        for i, n in enumerate(names):
            if not rng.chance(0.8):
                continue
            so = {"holders": [A.SAFE_HOLDERS[i % len(A.SAFE_HOLDERS)]], "licenses": rng.sample(A.LICENSES[:4], rng.randint(0, 1)), "years": ["2019"]}
            if flavour == "case-variants":
                so["holders"] = [CASE_PAIRS[i % 3][0]]
                so["contributors"] = [CASE_PAIRS[(i + 1) % 3][0]]
            if flavour == "merge-tie":
                so["prefix"] = rng.pick(["string", "string-c", "symbol", "spdx-symbol"])
                so["years"] = ["2020"]
            if _unrecognised(n):
                so["fallback_dot_license"] = True
            steps.append({"argv": ["--no-multiprocessing"] + A.argv_of(so, [n]), "clock": clocks[ci], "phase": "setup"})
            ci += 1
    opts = {"holders": rng.sample(A.SAFE_HOLDERS, rng.randint(0, 2)), "licenses": rng.sample(A.LICENSES[:5], rng.randint(1, 2)), "years": ["2020"]}
    if any(_unrecognised(n) for n in names):
        opts["fallback_dot_license"] = True  # unrecognised types among the files
    if flavour == "case-variants":
        opts["holders"] = [p[1] for p in CASE_PAIRS[:2]]
        opts["contributors"] = [CASE_PAIRS[2][1], CASE_PAIRS[0][1]]
    if flavour == "merge-tie":
        opts["holders"] = [A.SAFE_HOLDERS[0], A.SAFE_HOLDERS[1]]
        opts["merge_copyrights"] = True
    if rng.chance(0.2):
        opts["merge_copyrights"] = True
    n = rng.randint(2, 4)
    order = list(names)
    rng.shuffle(order)
    for j in range(n):
        steps.append({"argv": ["--no-multiprocessing"] + A.argv_of(opts, order), "clock": clocks[ci + j], "phase": "repeat"})
    case = {"prop": PROP, "seed": seed, "world": {"files": files}, "style": styles[0], "opts": opts, "body": "multi-file:" + flavour,
            "name": names[0], "names": names, "variants": [{"hashseed": rng.randrange(8), "steps": steps}]}
    if rng.chance(0.6):
        _cross_seed(case, rng)
    if rng.chance(0.15):
        _stdout_dies(case, rng)
    return case


def oracle(case, results):
    vs = []
    opts = case["opts"]
    names = case.get("names") or [case["name"]]
    steps = case["variants"][0]["steps"]
    recs = results[0]["records"]
    tracked = [p for n in names for p in (n, n + ".license")]
    orig = {f["path"]: f.get("content", "") for f in case["world"]["files"]}
    cur = {p: orig.get(p) for p in tracked}
    mode = "multi" if opts.get("multi_line") else "default"
    tag = f"{case['style']}/{mode}/{case['body']}" + ("/cross-seed" if case.get("cross_seed") else "")
    first = None
    nrep = 0
    torn = False
    for k, (st, rec) in enumerate(zip(steps, recs)):
        for p in tracked:
            d = (rec.get("diff") or {}).get(p)
            if d is not None and st.get("phase") == "torn":
                cur[p] = d.get("content") if d.get("after") else None
        if st.get("phase") == "torn":
            torn = any(f.startswith("write:") for f in rec.get("fired", []))
            continue
        if rec.get("exc") and not any(f.startswith("stdout:EPIPE") for f in rec.get("fired", [])):
            vs.append({"sig": f"C10/crashed/{rec['exc']['type']}/{tag}", "detail": rec["exc"]["tb"][-500:]})
            return vs
        for p in tracked:
            d = (rec.get("diff") or {}).get(p)
            if d is not None:
                cur[p] = d.get("content") if d.get("after") else None
        if st.get("phase") == "setup":
            if rec.get("exit") != 0:
                return vs  # the set-up did not work out: nothing to judge
            continue
        nrep += 1
        stdout_died = any(f.startswith("stdout:EPIPE") for f in rec.get("fired", []))
        if rec.get("exit") != 0 and not stdout_died:
            if rec.get("exit") == 2 and nrep == 1:
                return vs  # the combination is refused as a usage error: nothing to re-run
            if torn and (nrep == 1 or not any(p in (rec.get("diff") or {}) for p in tracked)):
                return vs  # what the dying run left (half a multi-byte character, say) is refused and not touched: nothing to re-run
            if case.get("may_refuse") and nrep == 1 and all(cur[p] == orig.get(p) for p in tracked):
                return vs  # refused (the text could not be read back) and nothing written: nothing to re-run
            vs.append({"sig": f"C10/nonzero-exit/run{min(nrep, 2)}/{tag}", "detail": f"run {nrep}: exit={rec.get('exit')} stdout={rec.get('stdout', '')[-300:]} argv={st['argv']}"})
            return vs
        others = sorted(l for l, dd in (rec.get("diff") or {}).items() if l not in tracked and not (dd.get("before") and dd["before"][0] == "d") and not (dd.get("after") and dd["after"][0] == "d"))
        if others and nrep > 1:
            vs.append({"sig": f"C10/other-files-changed/{tag}", "detail": str(others)})
        if nrep == 1:
            first = dict(cur)
            continue
        changed = [p for p in tracked if cur[p] != first[p]]
        if changed:
            p = changed[0]
            vs.append({"sig": f"C10/not-idempotent/{tag}",
                       "detail": f"run {nrep} changed {changed} although the arguments are identical (argv={st['argv']}; hash seeds of the runs: {[s.get('hashseed', 'executor') for s in steps if s.get('phase') != 'setup']}).\n--- {p} after run 1:\n{first[p]!r:.700}\n--- after run {nrep}:\n{cur[p]!r:.900}"})
            return vs
    if torn and nrep >= 2 and not opts.get("skip_existing"):
        # after a run that died while writing: the runs that followed must not have settled on TWO headers, one in the
        # file and one in a companion the arguments did not ask for
        for name_ in names:
            a, b = cur.get(name_) or "", cur.get(name_ + ".license")
            if b is not None and "SPDX-" in a and "SPDX-" in b and not opts.get("force_dot_license") and orig.get(name_ + ".license") is None:
                vs.append({"sig": f"C10/two-headers/file-and-companion/{tag}", "detail": f"{name_}:\n{a!r:.400}\n{name_}.license:\n{b!r:.400}"})
                return vs
    # exactly one header block: every requested licence line occurs once
    if nrep >= 2 and not opts.get("skip_existing") and not torn:  # what a dying run left behind may hold tag lines of its own
        req = A.requested(opts, "2024")
        for name in names:
            target = name + ".license" if cur.get(name + ".license") is not None else name
            text = (cur.get(target) or "").replace("\r\n", "\n")
            for lic in req["licenses"]:
                c = sum(1 for line in text.split("\n") if "SPDX-License-Identifier: " in line
                        and line.split("SPDX-License-Identifier: ", 1)[1].strip() == lic)
                if c > 1:
                    vs.append({"sig": f"C10/stacked-header/{tag}", "detail": f"'SPDX-License-Identifier: {lic}' occurs {c} times in {target} after {nrep} identical runs:\n{text!r:.900}"})
                    return vs
    return vs


def account(case, results, cov):
    recs = results[0]["records"]
    ok = sum(1 for r in recs if r.get("exit") == 0)
    cov.bump("histories_multi_file", 1 if case.get("names") else 0)
    cov.bump("histories_with_a_new_hash_seed_per_command", 1 if case.get("cross_seed") else 0)
    if ok >= 2:
        cov.nontrivial.add(digest([case["world"], case["variants"]]))
    cov.bump("style." + case["style"])
    cov.bump("runs_total", len(recs))
    steps = case["variants"][0]["steps"]
    import datetime
    for a, b in zip(steps, steps[1:]):
        ta, tb = datetime.datetime.fromisoformat(a["clock"]), datetime.datetime.fromisoformat(b["clock"])
        cov.sim_seconds += max(0, int((tb - ta).total_seconds()))
    if len(cov.samples) < 3 and case["seed"] > 30_000:
        cov.samples.append({"seed": case["seed"], "file": case["name"], "body": case["body"], "argv": steps[0]["argv"], "clocks": [s["clock"] for s in steps]})
