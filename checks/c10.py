"""C10 - re-running annotate with the same arguments changes nothing.

Histories: annotate; the same annotate again (N = 2..5), under a simulated clock that advances
between the runs but stays inside one calendar year. Backbone: a complete sweep of every
--style value x {default, --multi-line} x body class; seeded sampling fills the other options.
"""
from checks import annot as A
from rsim import gen as G
from rsim.prf import Rng, digest

PROP = "C10"
LEVEL = "exploration"
TIERS = {
    "quick": {"cases": 250, "budget_s": 80, "batch": 64},
    "thorough": {"cases": 6000, "budget_s": 900, "batch": 64},
}
RULE = (
    "prelude (complete): every --style value x {default, --multi-line where the style supports both} x body class {empty, code, "
    "comment in the same style, shebang-like first line, leading blank lines, CRLF, no final newline} on a file of unknown "
    "extension, plus every style through its own file extension: annotate three times with identical arguments. Then seeded "
    "histories (N = 2..5 identical runs) over copyright prefix, --year / --exclude-year / default year from the simulated clock, "
    "several holders and licences, contributors, --merge-copyrights, --skip-existing, --force-dot-license, custom and commented "
    "templates, and headers longer than 4 KiB (60 holders); the clock advances between runs by seconds to months inside one calendar year. --no-replace is excluded (documented "
    "as additive). Non-trivial = at least two runs executed with exit 0; distinct = distinct plan digests"
)
EXPECTED_PROBES = ["annotate.write", "header.existing_header_merged", "header.shebang_kept", "annotate.skip_existing",
                   "annotate.force_dot_license_touch"]
SHRINK_CONTENT = True


LONG_HOLDERS = [f"Contributor Number {i:03d} of the Very Long Named Organisation <contributor{i:03d}@example.org>" for i in range(60)]


def _case(seed, style, opts, bodykind, name, n, clocks, hashseed=0, extra_files=()):
    content = A.body(style, bodykind)
    files = [{"path": name, "content": content}] + list(extra_files)
    steps = []
    for k in range(n):
        steps.append({"argv": ["--no-multiprocessing"] + A.argv_of(opts, [name]), "clock": clocks[k]})
    return {"prop": PROP, "seed": seed, "world": {"files": files}, "style": style, "opts": opts, "body": bodykind, "name": name,
            "variants": [{"hashseed": hashseed, "steps": steps}]}


def prelude_cases(tier, verif_seed):
    cases = []
    n = 0
    clocks = ["2024-03-01T10:00:00", "2024-03-01T10:00:07", "2024-11-30T23:59:59"]
    for style in G.STYLE_NAMES:
        modes = [False] + ([True] if G.can_multi(style) and G.can_single(style) else [])
        for multi in modes:
            for bk in A.BODY_KINDS:
                opts = {"holders": ["Jane Doe"], "licenses": ["MIT"], "style": style}
                if multi:
                    opts["multi_line"] = True
                cases.append(_case(20_000 + n, style, opts, bk, "x.foo", 3, clocks, hashseed=n % 8))
                n += 1
        for bk in ("code", "comment"):
            opts = {"holders": ["Jane Doe", "ACME Corp."], "licenses": ["GPL-3.0-or-later"]}
            cases.append(_case(20_000 + n, style, opts, bk, "y" + G.STYLES[style][7], 3, clocks, hashseed=n % 8))
            n += 1
    # headers longer than the 4 KiB window in which the linter looks for tags
    for style, multi in (("python", False), ("c", False), ("html", False), ("cpp", True), ("tex", False)):
        for target in ("file", "dot-license"):
            opts = {"holders": LONG_HOLDERS, "licenses": ["MIT", "Apache-2.0"]}
            if multi:
                opts["multi_line"] = True
            if target == "dot-license":
                opts["force_dot_license"] = True
                opts.pop("multi_line", None)
            cases.append(_case(20_000 + n, style, opts, "shebang" if style in ("python", "cpp") else "code", "z" + G.STYLES[style][7], 3, clocks, hashseed=n % 8))
            n += 1
    return cases


def gen_case(seed, tier, index=0):
    rng = Rng(seed, "c10")
    style = rng.pick(G.STYLE_NAMES)
    opts = {"holders": rng.sample(A.SAFE_HOLDERS, rng.randint(0, 3)), "licenses": rng.sample(A.LICENSES, rng.randint(0, 2))}
    if rng.chance(0.3):
        opts["contributors"] = rng.sample(A.CONTRIBUTORS, rng.randint(1, 2))
    if not (opts["holders"] or opts["licenses"] or opts.get("contributors")):
        opts["holders"] = ["Jane Doe"]
    if rng.chance(0.5):
        opts["prefix"] = rng.pick(sorted(A.PREFIXES))
    y = rng.randrange(4)
    if y == 0:
        opts["years"] = [rng.pick(["1999", "2015", "2024"])]
    elif y == 1:
        opts["years"] = sorted(rng.sample(["2001", "2010", "2020", "2023"], 2))
    elif y == 2:
        opts["exclude_year"] = True
    use_ext = rng.chance(0.5)
    name = ("m" + G.STYLES[style][7]) if use_ext else "m.unknownext"
    if not use_ext:
        opts["style"] = style
    if G.can_multi(style) and G.can_single(style) and rng.chance(0.4):
        opts["multi_line"] = True
    extra = []
    t = rng.randrange(6)
    if t == 0:
        opts["template"] = "full"
    elif t == 1:
        opts["template"] = "nocontrib"
    elif t == 2 and style == "python":
        opts["template"] = "pycommented"
    if opts.get("template"):
        extra = A.template_files([opts["template"]])
        if not A.TEMPLATES[opts["template"]][2] and not (opts["holders"] or opts["licenses"]):
            # a template that renders no contributors needs something it does render, else the header carries no tag at all
            opts["holders"] = ["Jane Doe"]
    if rng.chance(0.05):
        opts["holders"] = LONG_HOLDERS[: rng.randint(45, 60)]
    if rng.chance(0.15):
        opts["merge_copyrights"] = True
    if rng.chance(0.1):
        opts["skip_existing"] = True
    if rng.chance(0.15):
        opts["force_dot_license"] = True
        opts.pop("multi_line", None)
    n = rng.randint(2, 5)
    year = rng.pick([2023, 2024, 2031])
    secs = sorted(rng.sample(range(0, 360 * 86400), n))
    import datetime
    clocks = [(datetime.datetime(year, 1, 1) + datetime.timedelta(seconds=s)).isoformat(timespec="seconds") for s in secs]
    return _case(seed, style, opts, rng.pick(A.BODY_KINDS), name, n, clocks, hashseed=rng.randrange(8), extra_files=extra)


def oracle(case, results):
    vs = []
    opts, name = case["opts"], case["name"]
    steps = case["variants"][0]["steps"]
    recs = results[0]["records"]
    target = name + ".license" if opts.get("force_dot_license") else name
    orig = {f["path"]: f.get("content", "") for f in case["world"]["files"]}
    cur = orig.get(target)
    mode = "multi" if opts.get("multi_line") else "default"
    tag = f"{case['style']}/{mode}/{case['body']}"
    first = None
    for k, (st, rec) in enumerate(zip(steps, recs)):
        if rec.get("exc"):
            vs.append({"sig": f"C10/crashed/{rec['exc']['type']}/{tag}", "detail": rec["exc"]["tb"][-500:]})
            return vs
        if rec.get("exit") != 0:
            if rec.get("exit") == 2 and k == 0:
                return vs  # the combination is refused as a usage error: nothing to re-run
            vs.append({"sig": f"C10/nonzero-exit/run{min(k + 1, 2)}/{tag}", "detail": f"run {k + 1}: exit={rec.get('exit')} stdout={rec.get('stdout', '')[-300:]} argv={st['argv']}"})
            return vs
        d = (rec.get("diff") or {}).get(target)
        if d is not None:
            cur = d.get("content") if d.get("after") else None
        others = sorted(l for l, dd in (rec.get("diff") or {}).items() if l not in (target, ".", name) and not (dd.get("before") and dd["before"][0] == "d"))
        if others and k > 0:
            vs.append({"sig": f"C10/other-files-changed/{tag}", "detail": str(others)})
        if k == 0:
            first = cur
            continue
        if cur != first:
            vs.append({"sig": f"C10/not-idempotent/{tag}",
                       "detail": f"run {k + 1} changed {target} although the arguments are identical (argv={st['argv']}).\n--- after run 1:\n{first!r:.700}\n--- after run {k + 1}:\n{cur!r:.900}"})
            return vs
    # exactly one header block: every requested line occurs once
    if cur is not None and len(steps) >= 2 and not opts.get("skip_existing"):
        req = A.requested(opts, steps[0].get("clock") or "2024")
        text = cur.replace("\r\n", "\n")
        for lic in req["licenses"]:
            c = sum(1 for line in text.split("\n") if "SPDX-License-Identifier: " in line
                    and line.split("SPDX-License-Identifier: ", 1)[1].strip() == lic)
            if c > 1:
                vs.append({"sig": f"C10/stacked-header/{tag}", "detail": f"'SPDX-License-Identifier: {lic}' occurs {c} times after {len(steps)} identical runs:\n{cur!r:.900}"})
                break
    return vs


def account(case, results, cov):
    recs = results[0]["records"]
    ok = sum(1 for r in recs if r.get("exit") == 0)
    if ok >= 2:
        cov.nontrivial.add(digest([case["world"], case["variants"]]))
    cov.bump("style." + case["style"])
    cov.bump("runs_total", len(recs))
    steps = case["variants"][0]["steps"]
    import datetime
    for a, b in zip(steps, steps[1:]):
        ta, tb = datetime.datetime.fromisoformat(a["clock"]), datetime.datetime.fromisoformat(b["clock"])
        cov.sim_seconds += int((tb - ta).total_seconds())
    if len(cov.samples) < 3 and case["seed"] > 30_000:
        cov.samples.append({"seed": case["seed"], "file": case["name"], "body": case["body"], "argv": steps[0]["argv"], "clocks": [s["clock"] for s in steps]})
