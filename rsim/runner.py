"""Generic check loop: seeds -> cases -> executions -> oracle -> shrink -> replay -> evidence."""
import copy
import fnmatch
import json
import os
import re
import sys
import time

from .driver import Farm, HarnessError
from .prf import digest, prf

VERIF = os.path.dirname(os.path.dirname(os.path.abspath(__file__)))
FINDINGS = os.path.join(VERIF, "known_findings.json")


def log(*a):
    print(*a, file=sys.stderr, flush=True)


def case_seed(verif_seed, prop, i):
    return prf(verif_seed, prop, i) % (1 << 40)


_ADDR = re.compile(r"0x[0-9a-fA-F]{6,}")


def scrub_result(res):
    """Make a result independent of where and when it ran."""
    root = res.get("root")
    base = os.path.dirname(root) if root else None

    def s(x):
        if isinstance(x, str):
            if base:
                x = x.replace(base, "$B")
            return _ADDR.sub("0xX", x)
        if isinstance(x, list):
            return [s(i) for i in x]
        if isinstance(x, dict):
            return {k: s(v) for k, v in x.items() if k not in ("wall", "id")}
        return x

    out = s(res)
    out.pop("root", None)
    return out


def execute_case(farm, case, id_prefix="c", mod=None):
    """Run every variant of a case; returns (case_as_executed, scrubbed results in variant
    order). A check with an expand() hook is two-phase: the first execution is observed,
    expand() derives further variants from it (e.g. one per crash point seen), and the case as
    executed carries them with expanded=True so that a replay runs exactly the same plan."""
    jobs = jobs_of(case, id_prefix)
    got = farm.run_all(jobs)
    res = [scrub_result(got[j["id"]]) for j in jobs]
    if mod is not None and hasattr(mod, "expand") and not case.get("expanded") and not harness_problems(res):
        extra = mod.expand(case, res)
        case = dict(case, expanded=True)
        if extra:
            n0 = len(case["variants"])
            case["variants"] = list(case["variants"]) + extra
            for k, v in enumerate(extra):
                v.setdefault("slot", n0 + k)
            jobs2 = jobs_of(case, id_prefix)[n0:]
            got2 = farm.run_all(jobs2)
            res = res + [scrub_result(got2[j["id"]]) for j in jobs2]
    return case, res


def jobs_of(case, id_prefix="c"):
    jobs = []
    for vi, var in enumerate(case["variants"]):
        jobs.append({
            "id": f"{id_prefix}:{case['seed']}:{vi}", "prop": case["prop"], "seed": case["seed"],
            "variant": var.get("slot", vi), "world": case["world"], "steps": var["steps"],
            "hashseed": var.get("hashseed", 0), "final_snapshot": bool(case.get("final_snapshot")),
        })
    return jobs


def harness_problems(results):
    probs = []
    for r in results:
        if "error" in r:
            probs.append(r["error"])
            continue
        for rec in r["records"]:
            if rec.get("harness") and not rec.get("timeout"):
                probs.append(f"{rec['harness']} argv={rec.get('argv')} status={rec.get('status')} stderr={rec.get('stderr', '')[-300:]}")
    return probs


def fingerprint(case, results):
    # variants that run on the real multiprocessing.Pool (fidelity cross-check) are not deterministic by nature
    keep = [r for v, r in zip(case["variants"], results) if not v.get("nondeterministic")]
    return digest({"case": digest(case), "results": keep})


# ---- known findings ----------------------------------------------------------------------
def load_findings(prop):
    try:
        with open(os.environ.get("RSIM_FINDINGS") or FINDINGS) as fp:
            data = json.load(fp)
    except FileNotFoundError:
        return []
    return [f for f in data.get("findings", []) if f.get("property") == prop]


def match_finding(findings, sig):
    for f in findings:
        if f.get("status") != "known":
            continue
        pat = f["signature"]
        if sig == pat or fnmatch.fnmatchcase(sig, pat):
            return f
    return None


# ---- shrinking ---------------------------------------------------------------------------
class Shrinker:
    def __init__(self, farm, mod, case, sig, max_exec=150, max_s=90.0):
        self.farm, self.mod, self.sig = farm, mod, sig
        self.best = copy.deepcopy(case)
        self.execs = 0
        self.max_exec, self.deadline = max_exec, time.monotonic() + max_s
        self.n = 0

    def still_fails(self, cand):
        if self.execs >= self.max_exec or time.monotonic() > self.deadline:
            return False
        self.execs += 1
        self.n += 1
        try:
            cand_x, res = execute_case(self.farm, cand, id_prefix=f"s{self.n}", mod=self.mod)
        except HarnessError:
            return False
        if harness_problems(res):
            return False
        try:
            vs = self.mod.oracle(cand_x, res)
        except Exception:
            return False
        return any(v["sig"] == self.sig for v in vs)

    def _ddmin_list(self, get, set_, min_len=0):
        """Delta-debug one list inside the case."""
        items = get(self.best)
        if not items or len(items) <= min_len:
            return
        n = 2
        while len(items) > min_len and n <= max(2, len(items)):
            chunk = max(1, len(items) // n)
            reduced = False
            for i in range(0, len(items), chunk):
                cand_items = items[:i] + items[i + chunk:]
                if len(cand_items) < min_len:
                    continue
                cand = copy.deepcopy(self.best)
                set_(cand, cand_items)
                if self.still_fails(cand):
                    self.best = cand
                    items = cand_items
                    n = max(n - 1, 2)
                    reduced = True
                    break
            if not reduced:
                if chunk == 1:
                    break
                n = min(len(items), n * 2)
            if self.execs >= self.max_exec or time.monotonic() > self.deadline:
                break

    def _try(self, mutate):
        cand = copy.deepcopy(self.best)
        if mutate(cand) is False:
            return False
        if cand == self.best:
            return False
        if self.still_fails(cand):
            self.best = cand
            return True
        return False

    def run(self):
        min_var = getattr(self.mod, "MIN_VARIANTS", 1)
        # 1. variants
        self._ddmin_list(lambda c: c["variants"], lambda c, v: c.__setitem__("variants", v), min_len=min_var)
        # 2. steps: aligned across variants when the check compares them pairwise
        if getattr(self.mod, "ALIGNED_STEPS", False):
            nsteps = len(self.best["variants"][0]["steps"])
            idx = list(range(nsteps))

            def set_steps(c, keep):
                for v in c["variants"]:
                    v["steps"] = [v["steps"][i] for i in range(len(v["steps"])) if i in keep_map(keep)]

            def keep_map(keep):
                return set(keep)

            # simple one-by-one removal (few steps)
            for i in reversed(idx):
                def drop(c, i=i):
                    for v in c["variants"]:
                        if len(v["steps"]) <= 1 or i >= len(v["steps"]):
                            return False
                        del v["steps"][i]
                self._try(drop)
        else:
            for vi in range(len(self.best["variants"])):
                self._ddmin_list(lambda c, vi=vi: c["variants"][vi]["steps"],
                                 lambda c, v, vi=vi: c["variants"][vi].__setitem__("steps", v), min_len=1)
        # 3. world entries
        for key in ("files", "symlinks", "dirs", "sentinel"):
            if self.best["world"].get(key):
                self._ddmin_list(lambda c, key=key: c["world"].get(key, []),
                                 lambda c, v, key=key: c["world"].__setitem__(key, v))
        # 4. faults, mutations, crash points
        for vi, var in enumerate(self.best["variants"]):
            for si, st in enumerate(var["steps"]):
                for key in ("faults", "mutations"):
                    if st.get(key):
                        self._ddmin_list(lambda c, vi=vi, si=si, key=key: c["variants"][vi]["steps"][si].get(key, []),
                                         lambda c, v, vi=vi, si=si, key=key: c["variants"][vi]["steps"][si].__setitem__(key, v))
        # 5. environment towards the default
        for vi in range(len(self.best["variants"])):
            for si in range(len(self.best["variants"][vi]["steps"])):
                for key, default in (("pool", None), ("readdir_key", 0), ("short_io", None), ("buffer_size", None),
                                     ("cwd", "."), ("clock", None)):
                    def simp(c, vi=vi, si=si, key=key, default=default):
                        st = c["variants"][vi]["steps"][si]
                        if "argv" not in st or key not in st:
                            return False
                        if key == "pool":
                            st.pop("pool")
                            if "--no-multiprocessing" not in st["argv"]:
                                st["argv"] = ["--no-multiprocessing"] + st["argv"]
                        elif key == "cwd":
                            return False  # cwd is tied to argv spelling; left alone
                        elif default is None:
                            st.pop(key)
                        else:
                            st[key] = default
                    self._try(simp)
            def hs(c, vi=vi):
                c["variants"][vi]["hashseed"] = 0
            self._try(hs)

            def plain_root(c, vi=vi):
                changed = False
                for st in c["variants"][vi]["steps"]:
                    if "argv" not in st:
                        continue
                    if st.get("cwd", ".") != ".":
                        st["cwd"] = "."
                        changed = True
                    if "--root" in st["argv"] and getattr(self.mod, "ROOT_IS_ENV", False):
                        i = st["argv"].index("--root")
                        del st["argv"][i:i + 2]
                        changed = True
                return changed
            if getattr(self.mod, "ROOT_IS_ENV", False):
                self._try(plain_root)
        if self.best["world"].get("git"):
            self._try(lambda c: c["world"].__setitem__("git", None))
        # 6. file contents: drop lines
        for fi in range(len(self.best["world"].get("files", [])) if getattr(self.mod, "SHRINK_CONTENT", True) else 0):
            content = self.best["world"]["files"][fi].get("content", "")
            if not isinstance(content, str) or content.count("\n") > 60:
                continue
            self._ddmin_list(
                lambda c, fi=fi: c["world"]["files"][fi].get("content", "").splitlines(keepends=True),
                lambda c, v, fi=fi: c["world"]["files"][fi].__setitem__("content", "".join(v)))
        return self.best


# ---- evidence -----------------------------------------------------------------------------
class Coverage:
    def __init__(self):
        self.evaluations = 0
        self.commands = 0
        self.nontrivial = set()
        self.fault_kinds = {}
        self.probes = {}
        self.pool_sigs = set()
        self.hashseeds = set()
        self.trace_shapes = set()
        self.readdir_keys = set()
        self.cwds = set()
        self.crash_points = 0
        self.timeouts = 0
        self.exit_codes = {}
        self.samples = []
        self.extra = {}
        self.sim_seconds = 0
        self.year_rollovers = 0

    def add_results(self, case, results):
        self.evaluations += 1
        for var, res in zip(case["variants"], results):
            self.hashseeds.add(var.get("hashseed", 0))
            for st, rec in zip(var["steps"], res.get("records", [])):
                if "argv" not in st:
                    continue
                self.commands += 1
                for k in rec.get("fired", []):
                    k = k.split("|", 1)[0]
                    self.fault_kinds[k] = self.fault_kinds.get(k, 0) + 1
                for p in rec.get("probes", []):
                    self.probes[p] = self.probes.get(p, 0) + 1
                for sig in rec.get("pool", []):
                    self.pool_sigs.add(digest(sig))
                if rec.get("crashed"):
                    self.crash_points += 1
                if rec.get("timeout"):
                    self.timeouts += 1
                ec = "exc" if rec.get("exc") else ("crash" if rec.get("crashed") else str(rec.get("exit")))
                self.exit_codes[ec] = self.exit_codes.get(ec, 0) + 1
                self.readdir_keys.add(st.get("readdir_key", 0))
                self.cwds.add(st.get("cwd", "."))
                shape = digest([[e[0][:1], e[1]] for e in rec.get("trace", [])][:400])
                self.trace_shapes.add(shape)

    def bump(self, key, n=1):
        self.extra[key] = self.extra.get(key, 0) + n


def write_evidence(prop, tier, seed, level, cov, rule, wall, violations, known, farm_hello, extra_assumptions=(), extra_cov=None):
    from . import probes as P
    stuck = sorted(n for n, *_ in P.SPECS if n in cov.extra.get("_expected_probes", []) and n not in cov.probes)
    coverage = {
        "evaluations": cov.evaluations,
        "distinct_nontrivial": len(cov.nontrivial),
        "rule": rule,
        "samples": cov.samples[:4],
        "exhaustive": False,
        "commands_executed": cov.commands,
        "runs_per_hour": round(cov.evaluations / max(wall, 1e-6) * 3600),
        "commands_per_hour": round(cov.commands / max(wall, 1e-6) * 3600),
        "faults_fired_by_kind": dict(sorted(cov.fault_kinds.items())),
        "crash_points_executed": cov.crash_points,
        "distinct_pool_schedules": len(cov.pool_sigs),
        "distinct_readdir_keys": len(cov.readdir_keys),
        "distinct_hashseeds": len(cov.hashseeds),
        "distinct_cwds": len(cov.cwds),
        "distinct_gate_trace_shapes": len(cov.trace_shapes),
        "exit_status_histogram": dict(sorted(cov.exit_codes.items())),
        "reach_probes": dict(sorted(cov.probes.items())),
        "reach_probes_expected_but_zero": stuck,
        "unresolved_probes": (farm_hello or {}).get("unresolved_probes", []),
        "simulated_seconds_covered": cov.sim_seconds,
        "year_rollovers_crossed": cov.year_rollovers,
        "watchdog_timeouts": cov.timeouts,
        "known_findings_seen": known,
        "real_vs_stub": {
            "real": ["reuse (imported from /repo/src)", "click, jinja2, tomlkit, python-debian, license-expression, binaryornot",
                     "CPython io buffering and text layers above the raw file", "the tmpfs file system", "git 2.39 (child process)",
                     "pool worker processes (forked) and pickling"],
            "stub": ["multiprocessing.Pool scheduling (SimForkPool)", "urllib.request.urlopen (SimNet)", "date/time/uuid (SimClock)",
                     "raw file layer (SimFileIO wraps io.FileIO)", "os.scandir/os.listdir order"],
            "absent": ["hg, jj, pijul"],
        },
    }
    if extra_cov:
        coverage.update(extra_cov)
    for k, v in cov.extra.items():
        if not k.startswith("_"):
            coverage[k] = v
    ev = {
        "property_id": prop, "tier": tier, "seed": int(seed), "level": level,
        "coverage": coverage,
        "assumptions": [
            "process-death fault model: what reached the kernel stays; power loss is not modelled",
            "pool workers are independent, so serialised schedules cover all real ones",
            "only Git among the VCS back-ends is installed",
            "a clean batch is evidence, not proof",
            *extra_assumptions,
        ],
        "wall_s": round(wall, 2),
        "violations": violations,
    }
    if os.environ.get("RSIM_NO_EVIDENCE"):
        return None
    os.makedirs(os.path.join(VERIF, "evidence"), exist_ok=True)
    path = os.path.join(VERIF, "evidence", f"{prop}.json")
    with open(path + ".tmp", "w") as fp:
        json.dump(ev, fp, indent=1, sort_keys=True)
    os.replace(path + ".tmp", path)
    return path


# ---- main loop --------------------------------------------------------------------------------
def run_check(mod, tier, verif_seed, budget_s=None, n_cases=None, replay=None, fingerprints_out=None, executors=None):
    prop = mod.PROP
    t0 = time.monotonic()
    farm = Farm(n=executors)
    try:
        if replay:
            return _replay(farm, mod, replay)
        return _explore(farm, mod, tier, verif_seed, budget_s, n_cases, fingerprints_out, t0)
    finally:
        farm.close()


def _replay(farm, mod, path):
    with open(path) as fp:
        rep = json.load(fp)
    case = rep["case"]
    case, res = execute_case(farm, case, id_prefix="r", mod=mod)
    probs = harness_problems(res)
    if probs:
        log("HARNESS:", probs[:3])
        return 2
    vs = mod.oracle(case, res)
    fp_now = fingerprint(case, res)
    sigs = [v["sig"] for v in vs]
    print(f"replay: signatures={sigs} fingerprint={fp_now} expected_signature={rep.get('signature')} "
          f"expected_fingerprint={rep.get('fingerprint')}")
    if rep.get("signature") in sigs:
        same = fp_now == rep.get("fingerprint")
        print(f"REPRODUCED fingerprint_identical={same}")
        for v in vs:
            if v["sig"] == rep.get("signature"):
                print("detail:", v.get("detail", "")[:2000])
        print(f"VIOLATION property={mod.PROP} replay={path}")
        return 1
    print("NOT-REPRODUCED")
    return 0


def _explore(farm, mod, tier, verif_seed, budget_s, n_cases, fingerprints_out, t0):
    prop = mod.PROP
    cfg = mod.TIERS[tier]
    n_cases = n_cases or cfg["cases"]
    budget_s = budget_s or cfg["budget_s"]
    batch = cfg.get("batch", 48)
    findings = load_findings(prop)
    cov = Coverage()
    if hasattr(mod, "EXPECTED_PROBES"):
        cov.extra["_expected_probes"] = list(mod.EXPECTED_PROBES)
    violations = []     # (sig, case, results, detail)
    known_seen = {}
    harness = []
    fps = {}
    i = 0
    stop = False
    prelude = list(mod.prelude_cases(tier, verif_seed)) if hasattr(mod, "prelude_cases") else []
    while not stop and (i < n_cases or prelude):
        if time.monotonic() - t0 > budget_s:
            log(f"[{prop}] time budget reached after {i} cases")
            break
        cases = []
        while prelude and len(cases) < batch:
            cases.append(prelude.pop(0))
        while len(cases) < batch and i < n_cases:
            cs = case_seed(verif_seed, prop, i)
            try:
                cases.append(mod.gen_case(cs, tier, i))
            except Exception as exc:  # noqa: BLE001 - a defect of a generator costs that one case, never the verdict
                cov.bump("generator_errors")
                log(f"[{prop}] generator error on case seed {cs}: {type(exc).__name__}: {exc} (case skipped)")
            i += 1
        jobs = []
        for c in cases:
            jobs.extend(jobs_of(c))
        got = farm.run_all(jobs)
        first = []
        for c in cases:
            first.append((c, [scrub_result(got[j["id"]]) for j in jobs_of(c)]))
        if hasattr(mod, "expand"):
            jobs2, second = [], []
            for c, res in first:
                if harness_problems(res) or c.get("expanded"):
                    second.append((c, res, 0))
                    continue
                extra = mod.expand(c, res)
                cx = dict(c, expanded=True)
                n0 = len(c["variants"])
                cx["variants"] = list(c["variants"]) + extra
                for k, v in enumerate(extra):
                    v.setdefault("slot", n0 + k)
                jobs2.extend(jobs_of(cx)[n0:])
                second.append((cx, res, n0))
            got2 = farm.run_all(jobs2) if jobs2 else {}
            first = []
            for cx, res, n0 in second:
                if n0:
                    res = res + [scrub_result(got2[j["id"]]) for j in jobs_of(cx)[n0:]]
                first.append((cx, res))
        # a command that outlived the watchdog is executed once more with a 300 s budget: only if it is still
        # running then does the oracle get to see a time-out (a watchdog cannot tell slow from stuck)
        slow = [(k, c) for k, (c, res) in enumerate(first)
                if any(rec.get("timeout") for r in res if "records" in r for rec in r["records"])]
        for k, c in slow[:6]:
            c2 = json.loads(json.dumps(c))
            for v in c2["variants"]:
                for st in v["steps"]:
                    if "argv" in st:
                        st["watchdog"] = 300
            try:
                _, res2 = execute_case(farm, dict(c2, expanded=True), id_prefix="w")
            except HarnessError:
                continue
            for v_old, v_new in zip(c["variants"], c2["variants"]):
                pass
            first[k] = (c, res2)
            cov.bump("commands_re-executed_with_300s_watchdog")
        for c, res in first:
            probs = harness_problems(res)
            if probs:
                harness.append((c["seed"], probs[0]))
                continue
            cov.add_results(c, res)
            if fingerprints_out is not None:
                fps[str(c["seed"])] = fingerprint(c, res)
            try:
                vs = mod.oracle(c, res)
                mod.account(c, res, cov)
            except Exception as e:  # oracle bug = harness trouble, never a violation
                import traceback
                harness.append((c["seed"], f"oracle raised {type(e).__name__}: {e}\n{traceback.format_exc()[-1500:]}"))
                continue
            if os.environ.get("RSIM_SURVEY"):
                for v in vs:
                    cov.extra.setdefault("_survey", {}).setdefault(v["sig"], [0, c["seed"], v.get("detail", "")[:600]])[0] += 1
                continue
            for v in vs:
                if "REAL-POOL-FIDELITY" in v["sig"]:
                    # the stub pool and the real pool disagree: the harness is wrong, not the property
                    harness.append((c["seed"], f"FIDELITY {v['sig']}: {v.get('detail', '')[:600]}"))
                    continue
                f = match_finding(findings, v["sig"])
                if f:
                    known_seen.setdefault(f["signature"], [f, 0])[1] += 1
                    continue
                if not any(x[0] == v["sig"] for x in violations):
                    violations.append((v["sig"], c, res, v.get("detail", "")))
            if len(violations) >= cfg.get("max_violations", 3):
                stop = True
                break
    wall_explore = time.monotonic() - t0
    rc = 0
    if os.environ.get("RSIM_SURVEY"):
        for sig, (n, seed, detail) in sorted(cov.extra.get("_survey", {}).items()):
            print(f"SURVEY {n:5d}x {sig}  (first seed {seed})\n        {detail[:500]}")
    for f, n in known_seen.values():
        print(f"KNOWN-FINDING: property={prop} {f['what']} [signature={f['signature']}; seen {n}x]")
    reported = 0
    for sig, c, res, detail in violations:
        log(f"[{prop}] violation {sig} on seed {c['seed']}; shrinking ...")
        sh = Shrinker(farm, mod, c, sig)
        small = sh.run()
        # confirm in fresh executions
        small, res2 = execute_case(farm, small, id_prefix="v", mod=mod)
        vs2 = [] if harness_problems(res2) else mod.oracle(small, res2)
        hit = [v for v in vs2 if v["sig"] == sig]
        if not hit:
            # fall back to the unshrunk case
            small, res2 = execute_case(farm, c, id_prefix="v2", mod=mod)
            vs2 = [] if harness_problems(res2) else mod.oracle(small, res2)
            hit = [v for v in vs2 if v["sig"] == sig]
        if not hit:
            harness.append((c["seed"], f"UNREPRODUCIBLE violation {sig}"))
            continue
        fp1 = fingerprint(small, res2)
        _, res3 = execute_case(farm, small, id_prefix="v3", mod=mod)
        if fingerprint(small, res3) != fp1:
            harness.append((c["seed"], f"NONDETERMINISM while confirming {sig}"))
            continue
        rdir = os.environ.get("RSIM_REPLAY_DIR") or os.path.join(VERIF, "replays")
        os.makedirs(rdir, exist_ok=True)
        rp = os.path.join(rdir, f"{prop}-{c['seed']}-{prf(sig) % 100000:05d}.json")
        with open(rp, "w") as fp:
            json.dump({"property": prop, "signature": sig, "fingerprint": fp1, "detail": hit[0].get("detail", ""),
                       "shrink_executions": sh.execs, "original_seed": c["seed"], "case": small}, fp, indent=1)
        print(f"violation: {sig}\n  {hit[0].get('detail', '')[:1500]}")
        print(f"VIOLATION property={prop} replay={rp}")
        reported += 1
        rc = 1
    wall = time.monotonic() - t0
    if harness:
        cov.bump("cases_the_harness_could_not_judge", len(harness))
    write_evidence(prop, tier, verif_seed, mod.LEVEL, cov, mod.RULE, wall_explore, reported,
                   sorted(known_seen), farm.hello, getattr(mod, "ASSUMPTIONS", ()),
                   mod.extra_coverage(cov) if hasattr(mod, "extra_coverage") else None)
    if fingerprints_out is not None:
        with open(fingerprints_out, "w") as fp:
            json.dump(fps, fp, indent=0, sort_keys=True)
    log(f"[{prop}] tier={tier} cases={cov.evaluations} commands={cov.commands} nontrivial={len(cov.nontrivial)} "
        f"violations={reported} known={len(known_seen)} harness={len(harness)} wall={wall:.1f}s")
    if harness:
        for seed, msg in harness[:5]:
            log(f"HARNESS seed={seed}: {msg[:1500]}")
        # a case the harness could not judge (a child that produced no record on an overloaded machine, say) is a case not
        # explored: it is reported above and counted in the evidence; only when it stops being the exception does the
        # run as a whole stop being a verdict
        tolerated = max(3, cov.evaluations // 100)
        if rc == 0 and len(harness) > tolerated:
            return 2
    return rc
