"""Reach probes without touching /repo: sys.monitoring LINE events on a few code objects.

A probe is (name, module, qualified function name, substring of a source line).
It is resolved once per executor; an unresolved probe is reported, not an error.
"""
import importlib
import inspect
import sys

SPECS = [
    ("report.read_error.project", "reuse.report", "ProjectReport.generate", "project_report.read_errors.add"),
    ("report.read_error.subset", "reuse.report", "ProjectSubsetReport.generate", "subset_report.read_errors.add"),
    ("report.worker_dep5_reparse", "reuse.report", "_MultiprocessingContainer.__call__", "self.project.global_licensing = self.reuse_dep5"),
    ("report.worker_exception", "reuse.report", "_MultiprocessingContainer.__call__", "return _MultiprocessingResult(file_, None, exc)"),
    ("report.not_a_file", "reuse.report", "FileReport.generate", "is not a file"),
    ("project.override_not_read", "reuse.project", "Project.reuse_info_of", "is covered exclusively by REUSE.toml"),
    ("project.binary_not_read", "reuse.project", "Project.reuse_info_of", "was detected as a binary file"),
    ("extract.unparseable_expression", "reuse.extract", "reuse_info_of_file", "holds an SPDX expression that cannot be"),
    ("extract.snippet_whole_file", "reuse.extract", "reuse_info_of_file", "read_limit = None"),
    ("annotate.comment_create_error", "reuse._annotate", "add_header_to_file", "Error: Could not create comment for"),
    ("annotate.missing_reuse_info", "reuse._annotate", "add_header_to_file", "Error: Generated comment header for"),
    ("annotate.fallback_dot_license", "reuse._annotate", "add_header_to_file", "comment_style = EmptyCommentStyle"),
    ("annotate.skip_existing", "reuse._annotate", "add_header_to_file", "already containing REUSE information"),
    ("annotate.skip_unrecognised", "reuse._annotate", "add_header_to_file", "Skipped unrecognised file"),
    ("annotate.force_dot_license", "reuse.cli.annotate", "annotate", "path = Path(new_path)"),
    ("annotate.write", "reuse._annotate", "add_header_to_file", "fp.write(output)"),
    ("header.merge_copyrights", "reuse.header", "create_header", "spdx_copyrights = merge_copyright_lines("),
    ("header.existing_header_merged", "reuse.header", "create_header", "reuse_info = existing_spdx | reuse_info"),
    ("header.shebang_kept", "reuse.header", "find_and_replace_header", "before, after = _extract_shebang(shebang, after)"),
    ("download.file_exists", "reuse.cli.download", "download", "_already_exists(err.filename)"),
    ("download.url_error", "reuse.cli.download", "download", "_could_not_download(lic)"),
    ("download.source_not_found", "reuse.cli.download", "download", "_not_found(err.filename)"),
    ("download.licenseref_copy", "reuse.download", "put_license_in_file", "shutil.copyfile(source, destination)"),
    ("download.licenseref_touch", "reuse.download", "put_license_in_file", "destination.touch()"),
    ("download.non200", "reuse.download", "download_license", "Status code was not 200"),
    ("download.licenses_dir_hack", "reuse.download", "_path_to_license_file", "root = None"),
    ("convert.unlink", "reuse.cli.convert_dep5", "convert_dep5", '".reuse/dep5").unlink()'),
    ("convert.no_dep5", "reuse.cli.convert_dep5", "convert_dep5", "No '.reuse/dep5' file."),
    ("common.parse_error_usage", "reuse.cli.common", "ClickObj.project", "could not be parsed. We received the"),
    ("common.conflict_or_oserror", "reuse.cli.common", "ClickObj.project", "raise click.UsageError(str(error)) from error"),
    ("toml.closest_cleanup", "reuse.global_licensing", "NestedReuseTOML.reuse_info_of", "if new_info.contains_copyright_or_licensing():"),
    ("toml.override_break", "reuse.global_licensing", "NestedReuseTOML.reuse_info_of", "break"),
    ("covered.symlink_skipped", "reuse.covered_files", "is_path_ignored", "skipping symlink"),
    ("covered.vcs_ignored", "reuse.covered_files", "is_path_ignored", "if vcs_strategy and vcs_strategy.is_ignored(path):"),
]

RESOLVED = {}      # name -> (code, lineno)
UNRESOLVED = []
TOOL = 3


def _find(module, qualname):
    obj = importlib.import_module(module)
    for part in qualname.split("."):
        obj = inspect.getattr_static(obj, part) if inspect.isclass(obj) else getattr(obj, part)
    if isinstance(obj, property):
        obj = obj.fget
    for attr in ("__func__", "callback", "__wrapped__"):
        while hasattr(obj, attr):
            obj = getattr(obj, attr)
    return obj


def resolve():
    RESOLVED.clear()
    del UNRESOLVED[:]
    for name, module, qual, needle in SPECS:
        try:
            fn = _find(module, qual)
            code = fn.__code__
            lines, start = inspect.getsourcelines(fn)
            hit = None
            for i, line in enumerate(lines):
                if needle in line:
                    hit = start + i
                    break
            if hit is None:
                UNRESOLVED.append(name)
                continue
            # a needle on a continuation line: take the first line of the statement that has events
            valid = sorted({ln for _, _, ln in code.co_lines() if ln})
            cands = [ln for ln in valid if ln <= hit]
            if hit not in valid and cands:
                hit = cands[-1]
            RESOLVED[name] = (code, hit)
        except Exception:
            UNRESOLVED.append(name)


def arm(sim):
    if not RESOLVED or not hasattr(sys, "monitoring"):
        return
    mon = sys.monitoring
    try:
        mon.use_tool_id(TOOL, "rsim")
    except ValueError:
        pass
    by_code = {}
    for name, (code, line) in RESOLVED.items():
        by_code.setdefault(code, {}).setdefault(line, []).append(name)

    def cb(code, line):
        d = by_code.get(code)
        if d and line in d:
            for n in d[line]:
                sim.probes.add(n)
        return mon.DISABLE

    mon.register_callback(TOOL, mon.events.LINE, cb)
    for code in by_code:
        mon.set_local_events(TOOL, code, mon.events.LINE)
    mon.restart_events()
