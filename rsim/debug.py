"""Debug helpers: python -m rsim.debug twice <prop> <case-index|seed:N> ; show ..."""
import importlib
import json
import sys

from .driver import Farm
from .runner import case_seed, execute_case, fingerprint


def _diff(a, b, path=""):
    if type(a) != type(b):
        return [(path, a, b)]
    if isinstance(a, dict):
        out = []
        for k in sorted(set(a) | set(b)):
            out += _diff(a.get(k), b.get(k), f"{path}.{k}")
        return out
    if isinstance(a, list):
        if len(a) != len(b):
            return [(path + ".len", len(a), len(b))]
        out = []
        for i, (x, y) in enumerate(zip(a, b)):
            out += _diff(x, y, f"{path}[{i}]")
        return out
    return [] if a == b else [(path, a, b)]


def main():
    cmd, prop, which = sys.argv[1:4]
    mod = importlib.import_module("checks." + prop.lower())
    tier = sys.argv[4] if len(sys.argv) > 4 else "quick"
    if which.startswith("seed:"):
        seed = int(which[5:])
    elif which.startswith("file:"):
        seed = None
    else:
        seed = case_seed(20261001, mod.PROP, int(which))
    case = json.load(open(which[5:]))["case"] if seed is None else mod.gen_case(seed, tier, 0)
    farm = Farm(n=8)
    try:
        if cmd == "twice":
            case1, r1 = execute_case(farm, case, "a", mod)
            _, r2 = execute_case(farm, case, "b", mod)
            print(fingerprint(case, r1), fingerprint(case, r2))
            for d in _diff(r1, r2)[:20]:
                print(str(d)[:600])
        elif cmd == "show":
            case, r1 = execute_case(farm, case, "a", mod)
            print(json.dumps(case, indent=1)[:6000])
            for vi, r in enumerate(r1):
                if "error" in r:
                    print("ERROR", r)
                    continue
                for rec in r["records"]:
                    print(f"--- v{vi}", rec.get("argv"), "exit", rec.get("exit"), "exc", rec.get("exc"), "fired", rec.get("fired"))
                    print(rec.get("stdout", "")[:1500])
                    print("ERR:", rec.get("stderr", "")[:1500])
                    print("diff:", json.dumps(rec.get("diff"))[:1000])
            for v in mod.oracle(case, r1):
                print("VIOLATION", v["sig"], v["detail"][:1500])
    finally:
        farm.close()


if __name__ == "__main__":
    main()
