"""Keyed pseudo-random function: every choice in a run is prf(seed, purpose, index).

Nothing here depends on PYTHONHASHSEED, on process identity or on call order.
"""
import hashlib
import random


def prf(*parts) -> int:
    h = hashlib.sha256("\x1f".join(str(p) for p in parts).encode("utf-8", "surrogatepass"))
    return int.from_bytes(h.digest()[:8], "big")


def digest(obj) -> str:
    import json
    return hashlib.sha256(
        json.dumps(obj, sort_keys=True, ensure_ascii=True, separators=(",", ":")).encode()
    ).hexdigest()


class Rng(random.Random):
    """A PRNG stream named by (seed, *labels). Used only in the single-threaded driver."""

    def __init__(self, *labels):
        super().__init__(prf(*labels))

    def chance(self, p: float) -> bool:
        return self.random() < p

    def pick(self, seq):
        return seq[self.randrange(len(seq))]

    def subset(self, seq, p=0.5):
        return [x for x in seq if self.random() < p]

    def wpick(self, pairs):
        """pairs: [(weight, value), ...]"""
        total = sum(w for w, _ in pairs)
        r = self.random() * total
        for w, v in pairs:
            r -= w
            if r < 0:
                return v
        return pairs[-1][1]
