"""Executor: one interpreter per PYTHONHASHSEED. Reads jobs (JSON lines) on stdin,
executes each in a scratch world, writes one JSON line per job on the saved stdout.

job = {id, prop, seed, variant, world, steps:[{argv,...}|{user:{...}}], observe_final?}
"""
import fcntl
import json
import os
import shutil
import sys
import time
import traceback


def _observe(paths, req):
    """Small read-only observations computed with the tool's own reader."""
    kind = req["kind"]
    root = paths["root"]
    if kind == "reuse_info":
        from reuse.extract import extract_reuse_info
        p = os.path.join(root, req["path"])
        try:
            with open(p, "rb") as fp:
                text = fp.read().decode("utf-8", "replace").replace("\r\n", "\n")
            info = extract_reuse_info(text)
            return {
                "copyrights": sorted(info.copyright_lines),
                "licenses": sorted(str(e) for e in info.spdx_expressions),
                "contributors": sorted(info.contributor_lines),
            }
        except Exception as e:  # noqa: BLE001
            return {"error": type(e).__name__}
    if kind == "git_ignored":
        from . import world as W
        return sorted(W.git_ignored(root, req["paths"]))
    if kind == "read":
        p = os.path.join(root, req["path"])
        try:
            with open(p, "rb") as fp:
                return {"content": fp.read(200000).decode("utf-8", "surrogateescape")}
        except OSError as e:
            return {"error": type(e).__name__}
    return {"error": "unknown-observation"}


def execute(job):
    from . import child, world as W

    base = os.path.join(W.scratch_base(), str(job["prop"]), str(job["seed"]), str(job.get("variant", 0)))
    os.makedirs(os.path.dirname(base), exist_ok=True)
    deadline = time.monotonic() + 180
    while True:
        lock = open(base + ".lock", "w")
        try:
            fcntl.flock(lock, fcntl.LOCK_EX | fcntl.LOCK_NB)
            # the holder before us unlinks the file when it is done: make sure we locked the file that is there now
            try:
                if os.fstat(lock.fileno()).st_ino == os.stat(base + ".lock").st_ino:
                    break
            except FileNotFoundError:
                pass
            fcntl.flock(lock, fcntl.LOCK_UN)
            lock.close()
            continue
        except OSError:
            lock.close()
            if time.monotonic() > deadline:
                raise RuntimeError(f"scratch world {base} is locked by another process for more than 180 s")
            time.sleep(0.2)
    try:
        paths = W.build(job["world"], base)
        snap, _ = W.snapshot(paths)
        records = []
        for i, step in enumerate(job["steps"]):
            if "user" in step:
                res = W.apply_user_op(paths, step["user"])
                W.normalise_mtimes(paths)
                snap, _ = W.snapshot(paths)
                records.append({"user": step["user"]["op"], "result": res})
                continue
            ctx = dict(paths, seed=job["seed"], step_index=i)
            rec = child.run_command(ctx, step)
            after, contents = W.snapshot(paths, with_content=True)
            rec["diff"] = W.diff(snap, after, contents)
            W.normalise_mtimes(paths, touched=[k for k, v in after.items() if v[4]], now_ns=W.clock_ns(step.get("clock")))
            for v in after.values():
                v[4] = False
            snap = after
            if step.get("observe"):
                rec["obs"] = [_observe(paths, r) for r in step["observe"]]
            records.append(rec)
        out = {"id": job["id"], "records": records, "root": paths["root"]}
        if job.get("final_snapshot"):
            out["snapshot"] = {k: v[:4] for k, v in snap.items()}
        return out
    finally:
        shutil.rmtree(base, ignore_errors=True)
        try:
            os.unlink(base + ".lock")  # while still holding the lock: a waiter re-checks the inode
        except OSError:
            pass
        fcntl.flock(lock, fcntl.LOCK_UN)
        lock.close()


def die_with_parent():
    """Ask the kernel to kill this process when its parent dies (PR_SET_PDEATHSIG), so that a killed check never
    leaves executors, command children or pool workers behind (they could hold scratch locks for ever)."""
    try:
        import ctypes
        import signal
        ctypes.CDLL("libc.so.6", use_errno=True).prctl(1, int(signal.SIGKILL))
    except Exception:
        pass


def main():
    die_with_parent()
    if os.getppid() == 1:
        return 0
    proto = os.fdopen(os.dup(1), "w", buffering=1)
    devnull = os.open(os.devnull, os.O_WRONLY)
    os.dup2(devnull, 1)
    from . import world as W, probes
    W.hermetic_env()
    import reuse
    import reuse.cli  # noqa: F401
    src = os.path.realpath(reuse.__file__)
    want = os.environ.get("RSIM_REUSE_SRC", "/repo/src/")
    if not src.startswith(want):
        proto.write(json.dumps({"fatal": f"reuse imported from {src}, expected under {want}"}) + "\n")
        return 2
    probes.resolve()
    proto.write(json.dumps({"hello": True, "hashseed": os.environ.get("PYTHONHASHSEED"),
                            "unresolved_probes": probes.UNRESOLVED, "reuse": src}) + "\n")
    for line in sys.stdin:
        line = line.strip()
        if not line:
            continue
        job = json.loads(line)
        t0 = time.monotonic()
        try:
            out = execute(job)
        except BaseException as e:  # noqa: BLE001
            out = {"id": job.get("id"), "error": f"{type(e).__name__}: {e}", "tb": traceback.format_exc()[-2000:]}
        out["wall"] = round(time.monotonic() - t0, 4)
        proto.write(json.dumps(out) + "\n")
    return 0


if __name__ == "__main__":
    sys.exit(main())
