"""Child-side seams: the only place where faults, crashes and schedule decisions happen.

Everything here is installed inside the forked command process (never in the
executor itself), by replacing attributes that reuse and its dependencies look
up at call time: builtins.open / io.open, os.scandir / os.listdir, the mutating
os.* calls, multiprocessing.Pool, urllib.request.urlopen, the datetime modules
imported by reuse.cli.annotate and reuse.report, reuse.report.uuid4.
"""
import builtins
import datetime as _dt
import errno as _errno
import fnmatch
import io
import os
import random
import shutil
import sys
import types
import uuid as _uuid

from .prf import prf

_ORIG = {}
MUTATING = {
    "open-w", "write", "unlink", "mkdir", "touch", "utime", "rename", "rmdir",
    "chmod", "symlink", "link", "truncate",
}
TRACE_CAP = 4000

SIM = None  # the Sim of this process (set in the forked child only)


class Crash(BaseException):
    pass


def _save_originals():
    if _ORIG:
        return
    _ORIG.update(
        open=builtins.open, scandir=os.scandir, listdir=os.listdir,
        os_write=os.write, os_close=os.close, unlink=os.unlink, remove=os.remove, mkdir=os.mkdir, rmdir=os.rmdir,
        utime=os.utime, rename=os.rename, replace=os.replace, os_open=os.open,
        chmod=os.chmod, symlink=os.symlink, link=os.link, truncate=os.truncate,
        stat=os.stat, lstat=os.lstat,
    )


_save_originals()


class Sim:
    def __init__(self, cfg):
        self.cfg = cfg
        self.seed = cfg.get("seed", 0)
        self.step = cfg.get("step", 0)
        self.roots = []
        for key, tag in (("root", ""), ("sentinel", "@S"), ("home", "@H")):
            p = cfg.get(key)
            if p:
                self.roots.append((os.path.normpath(p), tag))
        self.role = "M"
        self.trace = []
        self.trace_dropped = 0
        self.fired = []
        self.mut_count = 0
        self.mut_events = []  # mutating events seen in the main role: [op, label, n]
        self.crash_at = cfg.get("crash_at")
        self.torn = cfg.get("torn")
        self.faults = cfg.get("faults") or []
        self.mutations = [dict(m) for m in (cfg.get("mutations") or [])]
        self.occ = {}
        self.pool_sigs = []
        self.probes = set()
        self.net_calls = []
        self.fd_labels = {}
        self.uuid_n = 0
        self.on_crash = None
        self.short_io = cfg.get("short_io")
        self.buffer_size = cfg.get("buffer_size")
        self.readdir_key = cfg.get("readdir_key")

    # ---- path classification -------------------------------------------------
    def label(self, path):
        """Return the plan-level name of *path* if it lies inside a simulated
        root, else None."""
        if isinstance(path, int):
            return None
        try:
            p = os.fspath(path)
        except TypeError:
            return None
        if isinstance(p, bytes):
            p = os.fsdecode(p)
        p = os.path.normpath(os.path.join(os.getcwd(), p))
        for root, tag in self.roots:
            if p == root:
                return (tag + "/.") if tag else "."
            if p.startswith(root + os.sep):
                rel = p[len(root) + 1:]
                return f"{tag}/{rel}" if tag else rel
        return None

    # ---- the gate ---------------------------------------------------------------
    def gate(self, op, label, n=0, pos=0):
        """Record the event; fire mutations, faults and crashes that the plan
        attaches to it. Returns None or a directive tuple for read/write."""
        if len(self.trace) < TRACE_CAP:
            self.trace.append([self.role, op, label, n])
        else:
            self.trace_dropped += 1
        key = (op, label)
        self.occ[key] = nth = self.occ.get(key, 0) + 1

        for m in self.mutations:
            at = m.get("at") or {}
            if m.get("done") or at.get("op") != op or at.get("path") != label:
                continue
            if at.get("nth") not in (None, nth):
                continue
            m["done"] = True
            self.apply_mutation(m["do"])

        directive = None
        if op in MUTATING and self.role == "M":
            idx = self.mut_count
            self.mut_count += 1
            if len(self.mut_events) < 500:
                self.mut_events.append([op, label, n])
            for m in self.mutations:
                at = m.get("at") or {}
                if at.get("mut_index") == idx and not m.get("done"):
                    # "just before the k-th change this command makes to the tree", whatever file that concerns
                    m["done"] = True
                    self.apply_mutation(m["do"])
            if self.crash_at is not None and idx == self.crash_at:
                if op == "write" and self.torn is not None and n > 0:
                    b = self.torn % n
                    if b:
                        self.fired.append("crash:torn-write")
                        return ("torn", b)
                self.fired.append("crash:before-" + op)
                self.crash()

        for f in self.faults:
            if f.get("op") != op:
                continue
            if "path_glob" in f:
                # "whatever file the command writes next to X": the name of a temporary file is not known to the plan
                if not fnmatch.fnmatchcase(label, f["path_glob"]) or label in (f.get("except") or ()):
                    continue
            elif f.get("path") != label:
                continue
            r = f.get("role")
            if r and not self.role.startswith(r):
                continue
            if f.get("nth") not in (None, nth):
                continue
            if "after" in f and op in ("read", "write"):
                k = f["after"]
                if pos + n <= k and n > 0:
                    continue
                fit = max(0, k - pos)
                if fit > 0 and n > 0:
                    # let the part that fits through; the error comes on the next call
                    directive = ("short", fit)
                    continue
            self.fired.append(f"{op}:{f['errno']}|{label}")
            num = getattr(_errno, f["errno"])
            raise OSError(num, os.strerror(num), label)

        if directive is None and self.short_io and op in ("read", "write") and n > self.short_io:
            # legal-but-unusual behaviour: the kernel may transfer fewer bytes than asked
            if prf(self.seed, "short", self.step, label, pos) % 3 == 0:
                self.fired.append("short-" + op)
                directive = ("short", max(1, self.short_io))
        return directive

    def crash(self):
        if self.on_crash:
            self.on_crash()
        os._exit(137)

    def apply_mutation(self, do):
        """A concurrent user/process changes the tree. Uses the real calls."""
        if do["op"] == "run":
            return self.run_concurrently(do["argv"])
        self.fired.append("mutation:" + do["op"] + "|" + do["path"])
        root = self.roots[0][0]
        p = os.path.join(root, do["path"])
        op = do["op"]
        try:
            if op == "delete":
                _ORIG["unlink"](p)
            elif op == "rmtree":
                _rmtree(p)
            elif op == "replace":
                with _ORIG["open"](p, "wb") as fp:
                    fp.write(do.get("content", "").encode("utf-8", "surrogateescape"))
            elif op == "to_dir":
                _ORIG["unlink"](p)
                _ORIG["mkdir"](p)
            elif op == "create":
                os.makedirs(os.path.dirname(p), exist_ok=True)
                with _ORIG["open"](p, "wb") as fp:
                    fp.write(do.get("content", "x").encode("utf-8", "surrogateescape"))
        except OSError:
            self.fired.append("mutation-noop")

    def run_concurrently(self, argv):
        """Another invocation of the tool, started by somebody else, runs from start to end at this very point of
        the current command (between two of its file-system events). No faults are planned for it."""
        sys.stdout.flush()
        sys.stderr.flush()
        pid = os.fork()
        if pid == 0:
            code = 70
            try:
                self.faults, self.mutations, self.crash_at, self.role = [], [], None, "B"
                self.on_crash = None
                devnull = _ORIG["os_open"](os.devnull, os.O_WRONLY)
                os.dup2(devnull, 1)
                os.dup2(devnull, 2)
                sys.stdout = io.TextIOWrapper(io.FileIO(1, "w", closefd=False), encoding="utf-8", errors="backslashreplace")
                sys.stderr = io.TextIOWrapper(io.FileIO(2, "w", closefd=False), encoding="utf-8", errors="backslashreplace")
                from reuse.cli.main import main
                try:
                    main(args=list(argv), prog_name="reuse")
                    code = 0
                except SystemExit as e:
                    code = e.code if isinstance(e.code, int) else (0 if e.code is None else 1)
            except BaseException:  # noqa: BLE001
                code = 70
            finally:
                os._exit(code)
        _, status = os.waitpid(pid, 0)
        self.fired.append(f"concurrent-run:exit{os.waitstatus_to_exitcode(status)}|{argv[-1]}")

    def probe(self, name):
        self.probes.add(name)


def _rmtree(p):
    for dirpath, dirnames, filenames in os.walk(p, topdown=False):
        for f in filenames:
            _ORIG["unlink"](os.path.join(dirpath, f))
        for d in dirnames:
            q = os.path.join(dirpath, d)
            if os.path.islink(q):
                _ORIG["unlink"](q)
            else:
                _ORIG["rmdir"](q)
    _ORIG["rmdir"](p)


# ---- file objects ----------------------------------------------------------------
class SimFileIO(io.FileIO):
    """The raw layer: a real FileIO whose system-call boundary passes the gate."""

    def __init__(self, sim, label, file, mode="r", closefd=True, opener=None, adopted=False):
        self._sim = sim
        self._label = label
        self._rpos = 0
        self._wpos = 0
        self._writing = any(c in mode for c in "wxa+")
        if not adopted:  # an adopted descriptor passed the gate when os.open created it
            sim.gate("open-w" if self._writing else "open-r", label)
        super().__init__(file, mode, closefd, opener)

    # reads
    def readinto(self, b):
        mv = memoryview(b).cast("B")
        n = len(mv)
        d = self._sim.gate("read", self._label, n, self._rpos)
        if d and d[0] == "short":
            k = min(n, d[1])
            got = super().readinto(mv[:k])
        else:
            got = super().readinto(mv)
        if got:
            self._rpos += got
        return got

    def read(self, size=-1):
        if size is None or size < 0:
            return self.readall()
        buf = bytearray(size)
        got = self.readinto(buf)
        if got is None:
            return None
        return bytes(buf[:got])

    def readall(self):
        chunks = []
        while True:
            buf = bytearray(8192)
            got = self.readinto(buf)
            if not got:
                break
            chunks.append(bytes(buf[:got]))
        return b"".join(chunks)

    def seek(self, pos, whence=0):
        r = super().seek(pos, whence)
        self._rpos = r
        self._wpos = r
        return r

    # writes
    def write(self, b):
        mv = memoryview(b).cast("B")
        n = len(mv)
        d = self._sim.gate("write", self._label, n, self._wpos)
        if d and d[0] == "torn":
            super().write(mv[: d[1]])
            self._sim.crash()
        if d and d[0] == "short":
            wrote = super().write(mv[: min(n, d[1])])
        else:
            wrote = super().write(mv)
        if wrote:
            self._wpos += wrote
        return wrote

    def close(self):
        if not self.closed:
            try:
                self._sim.gate("close", self._label)
            finally:
                super().close()


def sim_open(file, mode="r", buffering=-1, encoding=None, errors=None,
             newline=None, closefd=True, opener=None):
    sim = SIM
    label = sim.label(file) if sim is not None else None
    adopted = False
    if label is None and sim is not None and isinstance(file, int) and file in sim.fd_labels:
        # os.fdopen / open(fd) on a descriptor that os.open (mkstemp ...) created under a simulated root
        label, adopted = sim.fd_labels.pop(file)[0], True
    if label is None:
        return _ORIG["open"](file, mode, buffering, encoding, errors, newline, closefd, opener)
    # --- the same stack io.open builds, with SimFileIO as the raw layer -------------
    if not isinstance(mode, str):
        raise TypeError("invalid mode: %r" % mode)
    modes = set(mode)
    if modes - set("axrwb+t") or len(mode) > len(modes):
        raise ValueError("invalid mode: %r" % mode)
    creating, reading = "x" in modes, "r" in modes
    writing, appending = "w" in modes, "a" in modes
    updating, text, binary = "+" in modes, "t" in modes, "b" in modes
    if text and binary:
        raise ValueError("can't have text and binary mode at once")
    if creating + reading + writing + appending > 1:
        raise ValueError("can't have read/write/append mode at once")
    if not (creating or reading or writing or appending):
        raise ValueError("must have exactly one of read/write/append mode")
    if binary and encoding is not None:
        raise ValueError("binary mode doesn't take an encoding argument")
    if binary and errors is not None:
        raise ValueError("binary mode doesn't take an errors argument")
    if binary and newline is not None:
        raise ValueError("binary mode doesn't take a newline argument")
    rawmode = (
        (creating and "x" or "") + (reading and "r" or "")
        + (writing and "w" or "") + (appending and "a" or "")
        + (updating and "+" or "")
    )
    raw = SimFileIO(sim, label, file, rawmode, closefd, opener, adopted=adopted)
    result = raw
    try:
        if buffering == 1 and binary:
            buffering = -1
        line_buffering = False
        if buffering == 1:
            buffering = -1
            line_buffering = True
        if buffering < 0:
            buffering = sim.buffer_size or io.DEFAULT_BUFFER_SIZE
        if buffering == 0:
            if binary:
                return result
            raise ValueError("can't have unbuffered text I/O")
        if updating:
            buffer = io.BufferedRandom(raw, buffering)
        elif creating or writing or appending:
            buffer = io.BufferedWriter(raw, buffering)
        else:
            buffer = io.BufferedReader(raw, buffering)
        result = buffer
        if binary:
            return result
        result = io.TextIOWrapper(buffer, encoding, errors, newline, line_buffering)
        result.mode = mode
        return result
    except BaseException:
        if not isinstance(sys.exc_info()[1], Crash):
            try:
                result.close()
            except Exception:
                pass
        raise


# ---- directory enumeration -------------------------------------------------------------
class _SimScandirIter:
    def __init__(self, entries):
        self._it = iter(entries)

    def __iter__(self):
        return self

    def __next__(self):
        return next(self._it)

    def close(self):
        self._it = iter(())

    def __enter__(self):
        return self

    def __exit__(self, *a):
        self.close()


def _permute(sim, label, names, key=lambda x: x):
    items = sorted(names, key=key)
    k = sim.readdir_key
    if k:
        random.Random(prf(k, label)).shuffle(items)
    return items


def sim_scandir(path="."):
    sim = SIM
    label = sim.label(path) if sim is not None else None
    if label is None:
        return _ORIG["scandir"](path)
    sim.gate("scandir", label)
    with _ORIG["scandir"](path) as it:
        entries = list(it)
    return _SimScandirIter(_permute(sim, label, entries, key=lambda e: os.fsdecode(e.name)))


def sim_listdir(path="."):
    sim = SIM
    label = sim.label(path) if sim is not None else None
    if label is None:
        return _ORIG["listdir"](path)
    sim.gate("scandir", label)
    return _permute(sim, label, _ORIG["listdir"](path), key=os.fsdecode)


# ---- mutating os calls --------------------------------------------------------------------
def _mut1(name, op):
    orig = _ORIG[name]

    def wrapper(path, *a, **kw):
        sim = SIM
        label = sim.label(path) if sim is not None else None
        if label is not None:
            sim.gate(op, label)
        return orig(path, *a, **kw)

    wrapper.__name__ = name
    return wrapper


def _mut2(name, op):
    orig = _ORIG[name]

    def wrapper(src, dst, *a, **kw):
        sim = SIM
        if sim is not None:
            l1, l2 = sim.label(src), sim.label(dst)
            if l1 is not None or l2 is not None:
                sim.gate(op, f"{l1}->{l2}")
        return orig(src, dst, *a, **kw)

    wrapper.__name__ = name
    return wrapper


def _sim_stat(name):
    orig = _ORIG[name]

    def wrapper(path, *a, **kw):
        sim = SIM
        if sim is not None and kw.get("dir_fd") is None:
            label = sim.label(path)
            if label is not None:
                sim.gate("stat", label)
        return orig(path, *a, **kw)

    wrapper.__name__ = name
    return wrapper


def sim_os_open(path, flags, mode=0o777, *, dir_fd=None):
    sim = SIM
    label = sim.label(path) if sim is not None and dir_fd is None else None
    if label is not None and flags & (os.O_CREAT | os.O_WRONLY | os.O_RDWR | os.O_TRUNC | os.O_APPEND):
        sim.gate("touch", label)
    if dir_fd is None:
        fd = _ORIG["os_open"](path, flags, mode)
    else:
        fd = _ORIG["os_open"](path, flags, mode, dir_fd=dir_fd)
    if label is not None and flags & (os.O_WRONLY | os.O_RDWR):
        sim.fd_labels[fd] = [label, 0]  # raw descriptor under a simulated root: its os.write calls pass the gate
    return fd


def sim_os_write(fd, data):
    sim = SIM
    ent = sim.fd_labels.get(fd) if sim is not None else None
    if ent is None:
        return _ORIG["os_write"](fd, data)
    mv = memoryview(data).cast("B")
    d = sim.gate("write", ent[0], len(mv), ent[1])
    if d and d[0] == "torn":
        _ORIG["os_write"](fd, mv[: d[1]])
        sim.crash()
    if d and d[0] == "short":
        mv = mv[: min(len(mv), d[1])]
    n = _ORIG["os_write"](fd, mv)
    ent[1] += n
    return n


def sim_os_close(fd):
    sim = SIM
    if sim is not None:
        sim.fd_labels.pop(fd, None)
    return _ORIG["os_close"](fd)


_ORIG_CPU_COUNT = os.cpu_count
import subprocess as _subprocess
_ORIG_SUBPROCESS_RUN = _subprocess.run


class FailingStdout:
    """stdout whose reader has gone away: after *limit* characters every write raises EPIPE."""

    def __init__(self, inner, limit, sim):
        self._inner, self._limit, self._sim, self._n = inner, limit, sim, 0

    def write(self, text):
        if self._n + len(text) > self._limit:
            self._sim.fired.append("stdout:EPIPE|<stdout>")
            raise BrokenPipeError(_errno.EPIPE, "Broken pipe")
        self._n += len(text)
        return self._inner.write(text)

    def flush(self):
        return self._inner.flush()

    def __getattr__(self, name):
        return getattr(self._inner, name)


# ---- clock ------------------------------------------------------------------------------------
def _fake_datetime_module(iso):
    now = _dt.datetime.fromisoformat(iso)

    class date(_dt.date):
        @classmethod
        def today(cls):
            return _dt.date(now.year, now.month, now.day)

    class datetime(_dt.datetime):
        @classmethod
        def now(cls, tz=None):
            return now.replace(tzinfo=tz) if tz else now

        @classmethod
        def today(cls):
            return now

    return types.SimpleNamespace(
        date=date, datetime=datetime, timezone=_dt.timezone, timedelta=_dt.timedelta,
        time=_dt.time, tzinfo=_dt.tzinfo, UTC=getattr(_dt, "UTC", _dt.timezone.utc),
    )


# ---- network -------------------------------------------------------------------------------------
class _Resp:
    def __init__(self, sim, ident, outcome):
        self._sim, self._ident, self._o = sim, ident, outcome

    def __enter__(self):
        return self

    def __exit__(self, *a):
        return False

    def getcode(self):
        return self._o.get("code", 200)

    status = property(getcode)

    def read(self, *a):
        o = self._o
        kind = o["kind"]
        if kind == "midbody":
            self._sim.fired.append("net:midbody-" + o.get("exc", "reset"))
            if o.get("exc") == "IncompleteRead":
                import http.client
                raise http.client.IncompleteRead(b"partial text", 1000)
            if o.get("exc") == "timeout":
                raise TimeoutError("The read operation timed out")
            raise ConnectionResetError(_errno.ECONNRESET, "Connection reset by peer")
        if kind == "notutf8":
            self._sim.fired.append("net:notutf8")
            return b"\xff\xfe licence \xe9 text\n"
        return o.get("text", "").encode("utf-8")


def sim_urlopen(url, *a, **kw):
    import urllib.error
    sim = SIM
    u = url if isinstance(url, str) else url.full_url
    ident = u.rsplit("/", 1)[-1]
    if ident.endswith(".txt"):
        ident = ident[:-4]
    net = sim.cfg.get("net") or {}
    o = net.get(ident) or {"kind": "http", "code": 404}
    sim.net_calls.append(ident)
    if len(sim.trace) < TRACE_CAP:
        sim.trace.append([sim.role, "net", ident, 0])
    kind = o["kind"]
    if kind == "http":
        sim.fired.append(f"net:http{o.get('code', 404)}")
        raise urllib.error.HTTPError(u, o.get("code", 404), "simulated", None, None)
    if kind == "urlerror":
        sim.fired.append("net:urlerror")
        raise urllib.error.URLError(o.get("reason", "[Errno 111] Connection refused"))
    if kind == "timeout":
        sim.fired.append("net:timeout")
        raise urllib.error.URLError(TimeoutError("timed out"))
    if kind == "status":
        sim.fired.append(f"net:status{o.get('code')}")
    return _Resp(sim, ident, o)


# ---- installation -------------------------------------------------------------------------------
def install(cfg):
    """Install all seams in *this* process. Call only in a forked command child."""
    global SIM
    from . import pool as _pool

    sim = Sim(cfg)
    SIM = sim
    builtins.open = sim_open
    io.open = sim_open
    os.scandir = sim_scandir
    os.listdir = sim_listdir
    os.unlink = _mut1("unlink", "unlink")
    os.remove = _mut1("remove", "unlink")
    os.mkdir = _mut1("mkdir", "mkdir")
    os.rmdir = _mut1("rmdir", "rmdir")
    os.utime = _mut1("utime", "utime")
    os.chmod = _mut1("chmod", "chmod")
    os.truncate = _mut1("truncate", "truncate")
    os.rename = _mut2("rename", "rename")
    os.replace = _mut2("replace", "rename")
    os.symlink = _mut2("symlink", "symlink")
    os.link = _mut2("link", "link")
    os.open = sim_os_open
    os.write = sim_os_write
    os.close = sim_os_close
    if cfg.get("slow_git"):
        # an external command that takes longer than any deadline the code may have set for it: where a time-out was
        # given, it expires; where none was given, the call simply takes its (simulated) time and succeeds
        import subprocess
        slow = cfg["slow_git"]

        def slow_run(cmd, *a, **kw):
            words = [str(c) for c in cmd] if isinstance(cmd, (list, tuple)) else str(cmd).split()
            if kw.get("timeout") is not None and any(w in words for w in ([slow] if isinstance(slow, str) else slow)):
                sim.fired.append(f"timeout-expired:{kw['timeout']}|" + " ".join(words[:3]))
                raise subprocess.TimeoutExpired(cmd, kw["timeout"], output=b"", stderr=b"")
            return _ORIG_SUBPROCESS_RUN(cmd, *a, **kw)

        subprocess.run = slow_run
    if cfg.get("stderr"):
        sim.fired.append(f"stderr-broken:{cfg['stderr']}|<stderr>")
    if cfg.get("stdout_fail_after") is not None:
        sys.stdout = FailingStdout(sys.stdout, int(cfg["stdout_fail_after"]), sim)
    if any(f.get("op") == "stat" for f in sim.faults) or any((m.get("at") or {}).get("op") == "stat" for m in sim.mutations):
        # stat-level faults (a directory that can be listed but not searched): only patched when the plan asks for it
        os.stat = _sim_stat("stat")
        os.lstat = _sim_stat("lstat")
    shutil._USE_CP_SENDFILE = False
    if hasattr(shutil, "_USE_CP_COPY_FILE_RANGE"):
        shutil._USE_CP_COPY_FILE_RANGE = False

    if cfg.get("pool") and cfg["pool"].get("n"):
        # the simulated machine has as many CPUs as the plan's pool has workers
        n_cpu = int(cfg["pool"]["n"])
        real_cpu_count = os.cpu_count
        os.cpu_count = lambda: n_cpu
        for mname, mod in list(sys.modules.items()):
            # 'from os import cpu_count' binds the function itself
            if mod is not None and (mname == "reuse" or mname.startswith("reuse.")):
                for attr, val in list(vars(mod).items()):
                    if val is real_cpu_count or val is _ORIG_CPU_COUNT:
                        setattr(mod, attr, os.cpu_count)
        if hasattr(os, "process_cpu_count"):
            os.process_cpu_count = lambda: n_cpu
        if hasattr(os, "sched_getaffinity"):
            os.sched_getaffinity = lambda pid=0: set(range(n_cpu))

    import multiprocessing
    multiprocessing.Pool = _pool.SimForkPool
    if cfg.get("real_pool"):
        multiprocessing.Pool = _pool.ORIG_POOL

    import urllib.request
    urllib.request.urlopen = sim_urlopen

    clock = cfg.get("clock") or "2024-06-15T12:00:00"
    fake = _fake_datetime_module(clock)
    try:
        import reuse.cli.annotate as _ann
        _ann.datetime = fake
    except ImportError:  # a refactored tree may keep the clock elsewhere; the scan below finds it
        pass
    try:
        import reuse.report as _rep
        _rep.datetime = fake
    except ImportError:
        _rep = types.SimpleNamespace()
    # wherever else inside reuse the clock is read (today: nowhere): every module-level name bound to the datetime
    # module, to its date/datetime classes or to the time module reads the simulated clock too
    import time as _time
    now_epoch = _dt.datetime.fromisoformat(clock).replace(tzinfo=_dt.timezone.utc).timestamp()
    fake_time = types.SimpleNamespace(**{k: getattr(_time, k) for k in dir(_time) if not k.startswith("__")})
    fake_time.time = lambda: now_epoch
    fake_time.time_ns = lambda: int(now_epoch * 1_000_000_000)
    fake_time.localtime = lambda secs=None: _time.gmtime(now_epoch if secs is None else secs)
    fake_time.gmtime = lambda secs=None: _time.gmtime(now_epoch if secs is None else secs)
    fake_time.strftime = lambda fmt, t=None: _time.strftime(fmt, _time.gmtime(now_epoch) if t is None else t)
    fake_time.ctime = lambda secs=None: _time.asctime(_time.gmtime(now_epoch if secs is None else secs))
    for mname, mod in list(sys.modules.items()):
        if mod is None or not (mname == "reuse" or mname.startswith("reuse.")):
            continue
        for attr, val in list(vars(mod).items()):
            if val is _dt:
                setattr(mod, attr, fake)
            elif val is _dt.datetime:
                setattr(mod, attr, fake.datetime)
            elif val is _dt.date:
                setattr(mod, attr, fake.date)
            elif val is _time:
                setattr(mod, attr, fake_time)

    def fake_uuid4():
        sim.uuid_n += 1
        return _uuid.UUID(int=prf(sim.seed, "uuid", sim.step, sim.uuid_n) << 64 | prf(sim.seed, "uuid2", sim.step, sim.uuid_n))

    _rep.uuid4 = fake_uuid4
    for mname, mod in list(sys.modules.items()):
        if mod is not None and (mname == "reuse" or mname.startswith("reuse.")):
            for attr, val in list(vars(mod).items()):
                if val is _uuid.uuid4:
                    setattr(mod, attr, fake_uuid4)
    random.seed(prf(sim.seed, "random", sim.step))
    # names of temporary files (tempfile seeds its own generator from the OS): from the plan's seed
    import tempfile
    tempfile._Random = lambda: random.Random(prf(sim.seed, "tempfile", sim.step, sim.role))
    tempfile._name_sequence = None
    return sim
