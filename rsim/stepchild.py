"""Run ONE simulated command in a fresh interpreter (its own PYTHONHASHSEED): used when a history
must change the string-hash seed between two commands, as two real invocations of the CLI do.
usage: python -m rsim.stepchild <result-fd>   (ctx and step as one JSON object on stdin)"""
import json
import os
import sys


def main():
    wfd = int(sys.argv[1])
    data = json.load(sys.stdin)
    ctx, step = data["ctx"], data["step"]
    from . import child, probes
    import reuse
    import reuse.cli  # noqa: F401
    src = os.path.realpath(reuse.__file__)
    want = os.environ.get("RSIM_REUSE_SRC", "/repo/src/")
    if not src.startswith(want):
        os.write(wfd, json.dumps({"harness": f"reuse imported from {src}"}).encode())
        os._exit(3)
    probes.resolve()
    outp = os.path.join(ctx["scratch"], "out.txt")
    errp = os.path.join(ctx["scratch"], "err.txt")
    child._child(ctx, step, wfd, outp, errp)
    os._exit(0)


if __name__ == "__main__":
    main()
