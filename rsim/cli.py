"""Entry point: ./check <ID> [--tier T] [--replay F] ..."""
import argparse
import importlib
import os
import sys

HERE = os.path.dirname(os.path.dirname(os.path.abspath(__file__)))
if HERE not in sys.path:
    sys.path.insert(0, HERE)


def main(argv=None):
    # details may quote file names that are not valid UTF-8 (lone surrogates): never let printing fail on them
    for stream in (sys.stdout, sys.stderr):
        try:
            stream.reconfigure(errors="backslashreplace")
        except Exception:
            pass
    ap = argparse.ArgumentParser()
    ap.add_argument("prop")
    ap.add_argument("--tier", default=os.environ.get("VERIF_TIER") or "quick", choices=["quick", "thorough"])
    ap.add_argument("--replay")
    ap.add_argument("--cases", type=int)
    ap.add_argument("--budget", type=float, default=float(os.environ["VERIF_BUDGET_S"]) if os.environ.get("VERIF_BUDGET_S") else None)
    ap.add_argument("--fingerprints")
    ap.add_argument("--executors", type=int)
    a = ap.parse_args(argv)
    try:
        seed = int(os.environ.get("VERIF_SEED", "") or 20261001)
    except ValueError:
        seed = 20261001
    from rsim import runner
    if a.prop.startswith("selftest"):
        mod = importlib.import_module("selftest." + a.prop.split("-", 1)[1].replace("-", "_"))
        return mod.main(seed, a)
    mod = importlib.import_module("checks." + a.prop.lower())
    print(f"VERIF_SEED={seed} property={mod.PROP} tier={a.tier}", flush=True)
    try:
        rc = runner.run_check(mod, a.tier, seed, budget_s=a.budget, n_cases=a.cases, replay=a.replay,
                              fingerprints_out=a.fingerprints, executors=a.executors)
    except runner.HarnessError as e:
        print(f"HARNESS-ERROR: {e}", file=sys.stderr)
        return 2
    return rc


if __name__ == "__main__":
    sys.exit(main())
