"""Run one simulated CLI command in a forked process and collect what it did."""
import json
import os
import select
import signal
import sys
import time
import traceback

WATCHDOG_S = float(os.environ.get("RSIM_WATCHDOG_S", "40"))
OUT_CAP = 400_000


def _exc_info(exc):
    tb = traceback.extract_tb(exc.__traceback__)
    where = None
    for fr in reversed(tb):
        if "/reuse/" in fr.filename:
            where = f"{os.path.basename(fr.filename)}:{fr.name}"
            break
    if where is None and tb:
        fr = tb[-1]
        where = f"{os.path.basename(fr.filename)}:{fr.name}"
    return {
        "type": type(exc).__name__,
        "where": where,
        "msg": str(exc)[:300],
        "tb": "".join(traceback.format_exception(type(exc), exc, exc.__traceback__))[-3000:],
    }


def _child(ctx, step, wfd, outp, errp):
    from . import seams, probes
    from .executor import die_with_parent

    die_with_parent()
    try:
        os.setpgid(0, 0)
    except OSError:
        pass  # already a session leader (fresh-interpreter step)
    # stdout / stderr of the command (and of its pool workers) go to files
    fo = os.open(outp, os.O_WRONLY | os.O_CREAT | os.O_TRUNC, 0o600)
    fe = os.open(errp, os.O_WRONLY | os.O_CREAT | os.O_TRUNC, 0o600)
    if step.get("stderr") == "full":
        # standard error is a device without space (reuse ... 2>/dev/full): every write to it fails with ENOSPC
        os.close(fe)
        fe = os.open("/dev/full", os.O_WRONLY)
    elif step.get("stderr") == "epipe":
        # standard error is a pipe whose reader has gone away (SIGPIPE is ignored by Python: EPIPE)
        os.close(fe)
        r_, fe = os.pipe()
        os.close(r_)
    if step.get("stdout") == "epipe":
        # standard output is a pipe nobody reads (reuse lint | head -0) - at descriptor level, so that a process that
        # has SIGPIPE at its default disposition is killed by it, as it would be for real
        os.close(fo)
        r_, fo = os.pipe()
        os.close(r_)
    os.dup2(fo, 1)
    os.dup2(fe, 2)
    os.close(fo)
    os.close(fe)
    import io
    sys.stdout = io.TextIOWrapper(io.FileIO(1, "w", closefd=False), encoding="utf-8", errors="backslashreplace")
    sys.stderr = io.TextIOWrapper(io.FileIO(2, "w", closefd=False), encoding="utf-8", errors="backslashreplace", line_buffering=True)
    os.environ.pop("_SUPPRESS_DEP5_WARNING", None)

    cfg = dict(step)
    cfg.update(root=ctx["root"], sentinel=ctx.get("sentinel"), home=ctx.get("home"),
               seed=ctx["seed"], step=ctx["step_index"])
    cwd = step.get("cwd", ".")
    os.chdir(os.path.normpath(os.path.join(ctx["root"], cwd)))
    sim = seams.install(cfg)
    if step.get("nofile"):
        # a small descriptor table (ulimit -n): code that forgets to close what it opens runs into EMFILE
        import resource
        hard = resource.getrlimit(resource.RLIMIT_NOFILE)[1]
        resource.setrlimit(resource.RLIMIT_NOFILE, (int(step["nofile"]), hard))
        sim.fired.append(f"rlimit-nofile:{int(step['nofile'])}|<process>")
    probes.arm(sim)
    result = {"exit": None, "exc": None, "crashed": False}

    def report():
        try:
            sys.stdout.flush()
            sys.stderr.flush()
        except Exception:
            pass
        result.update(
            trace=sim.trace, dropped=sim.trace_dropped, fired=sim.fired,
            mut_events=sim.mut_events, pool=sim.pool_sigs,
            probes=sorted(sim.probes), net=sim.net_calls,
        )
        data = json.dumps(result).encode()
        _write_all(wfd, data)

    def on_crash():
        # user-space buffers are lost on purpose: no flush here
        result["crashed"] = True
        result.update(
            trace=sim.trace, dropped=sim.trace_dropped, fired=sim.fired,
            mut_events=sim.mut_events, pool=sim.pool_sigs,
            probes=sorted(sim.probes), net=sim.net_calls,
        )
        _write_all(wfd, json.dumps(result).encode())

    sim.on_crash = on_crash
    try:
        from reuse.cli.main import main
        import reuse.cli  # noqa: F401  (registers the sub-commands)
        try:
            argv = [a.replace("$ROOT", ctx["root"]).replace("$SENTINEL", ctx.get("sentinel") or "")
                    for a in step["argv"]]
            main(args=argv, prog_name="reuse")
            result["exit"] = 0
        except SystemExit as e:
            code = e.code
            if code is None:
                code = 0
            if not isinstance(code, int):
                result["exit_obj"] = repr(code)[:200]
                code = 1
            result["exit"] = code
    except BaseException as exc:  # escaped from main(): this is what C16 looks for
        result["exc"] = _exc_info(exc)
    report()


def _write_all(fd, data):
    view = memoryview(data)
    while view:
        n = os.write(fd, view[:65536])
        view = view[n:]


def run_command(ctx, step):
    """ctx: {root, sentinel, home, seed, step_index, scratch}. Returns the record."""
    outp = os.path.join(ctx["scratch"], "out.txt")
    errp = os.path.join(ctx["scratch"], "err.txt")
    rfd, wfd = os.pipe()
    sys.stdout.flush()
    sys.stderr.flush()
    hs = step.get("hashseed")
    fresh = (hs is not None and str(hs) != os.environ.get("PYTHONHASHSEED")) or bool(step.get("env"))
    if fresh:
        # a new interpreter with its own string-hash seed, like a second invocation of the real CLI; step["env"] adds
        # the user's environment (locale ...), which only a new interpreter picks up
        import subprocess
        env = dict(os.environ, PYTHONHASHSEED=str(hs if hs is not None else os.environ.get("PYTHONHASHSEED", "0")))
        env.update(step.get("env") or {})
        proc = subprocess.Popen([sys.executable, "-m", "rsim.stepchild", str(wfd)], pass_fds=[wfd], env=env,
                                stdin=subprocess.PIPE, stdout=subprocess.DEVNULL, stderr=subprocess.PIPE,
                                cwd=os.path.dirname(os.path.dirname(os.path.abspath(__file__))), start_new_session=True)
        try:
            proc.stdin.write(json.dumps({"ctx": ctx, "step": step}).encode())
            proc.stdin.close()
        except BrokenPipeError:
            pass
        pid = proc.pid
    else:
        pid = os.fork()
    if pid == 0:
        code = 98
        try:
            os.close(rfd)
            _child(ctx, step, wfd, outp, errp)
            code = 0
        except BaseException:
            try:
                traceback.print_exc()
            except Exception:
                pass
        finally:
            os._exit(code)
    os.close(wfd)
    chunks = []
    deadline = time.monotonic() + float(step.get("watchdog", WATCHDOG_S))
    timed_out = False
    while True:
        left = deadline - time.monotonic()
        if left <= 0:
            timed_out = True
            break
        r, _, _ = select.select([rfd], [], [], left)
        if not r:
            timed_out = True
            break
        b = os.read(rfd, 1 << 16)
        if not b:
            break
        chunks.append(b)
    os.close(rfd)
    if timed_out:
        try:
            os.killpg(pid, signal.SIGKILL)
        except ProcessLookupError:
            pass
    if fresh:
        try:
            status = proc.wait(timeout=20)
        except Exception:
            proc.kill()
            status = proc.wait()
    else:
        _, status = os.waitpid(pid, 0)
    # reap stray members of the group (pool workers of a crashed command)
    try:
        os.killpg(pid, signal.SIGKILL)
    except (ProcessLookupError, PermissionError):
        pass
    rec = None
    if chunks:
        try:
            rec = json.loads(b"".join(chunks))
        except ValueError:
            rec = None
    sig = None
    if fresh:
        if isinstance(status, int) and status < 0:
            sig = -status
    elif os.WIFSIGNALED(status):
        sig = os.WTERMSIG(status)
    if rec is None:
        rec = {"exit": None, "exc": None, "crashed": False, "trace": [], "fired": [],
               "mut_events": [], "pool": [], "probes": [], "net": [], "dropped": 0,
               "harness": "no-result"}
        if sig is not None and sig != signal.SIGKILL and not timed_out:
            # the command itself was killed by a signal (SIGPIPE with the default disposition, say): an outcome of the
            # command, not trouble of the harness
            rec["harness"] = None
            rec["killed_by"] = signal.Signals(sig).name
    rec["timeout"] = timed_out
    rec["status"] = status
    rec["stdout"] = _slurp(outp)
    rec["stderr"] = _slurp(errp)
    rec["argv"] = list(step["argv"])
    return rec


def _slurp(p):
    try:
        with open(p, "rb") as fp:
            data = fp.read(OUT_CAP + 1)
    except OSError:
        return ""
    s = data[:OUT_CAP].decode("utf-8", "backslashreplace")
    if len(data) > OUT_CAP:
        s += "\n<truncated>"
    return s
