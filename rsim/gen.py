"""Shared generators for plans: comment styles (a static copy of the pinned table),
licence pools, holders, header rendering. Pure data + Rng; hash-seed independent
(lists and sorted() only)."""

# name: (single, indent_after_single, (start, middle, end), indent_before_middle,
#        indent_after_middle, indent_before_end, shebangs, a file extension)
STYLES = {
    "applescript": ("--", " ", ("(*", "", "*)"), "", "", "", [], ".applescript"),
    "aspx": ("", "", ("<%--", "", "--%>"), "", "", "", [], ".aspx"),
    "bat": ("REM", " ", ("", "", ""), "", "", "", [], ".bat"),
    "bibtex": ("", "", ("@Comment{", "", "}"), "", "", "", ["% !BIB", "%!BIB"], ".bib"),
    "c": ("", "", ("/*", "*", "*/"), " ", " ", " ", [], ".c"),
    "cpp": ("//", " ", ("/*", "*", "*/"), " ", " ", " ", ["#!", "<?php"], ".cpp"),
    "cppsingle": ("//", " ", ("", "", ""), "", "", "", ["#!"], ".zig"),
    "f": ("c", " ", ("", "", ""), "", "", "", [], ".f"),
    "f90": ("!", " ", ("", "", ""), "", "", "", [], ".f90"),
    "ftl": ("", "", ("<#--", "", "-->"), "", "", "", [], ".ftl"),
    "handlebars": ("", "", ("{{!--", "", "--}}"), "", "", "", [], ".hbs"),
    "haskell": ("--", " ", ("", "", ""), "", "", "", ["cabal-version:"], ".hs"),
    "html": ("", "", ("<!--", "", "-->"), "", "", "", ["<?xml"], ".html"),
    "jinja": ("", "", ("{#", "", "#}"), "", "", "", [], ".jinja2"),
    "julia": ("#", " ", ("#=", "", "=#"), "", "", "", ["#!"], ".jl"),
    "lisp": (";;;", " ", ("", "", ""), "", "", "", [], ".lisp"),
    "m4": ("dnl", " ", ("", "", ""), "", "", "", [], ".m4"),
    "man": ('.\\"', " ", ("", "", ""), "", "", "", [], ".man"),
    "ml": ("", "", ("(*", "*", "*)"), " ", " ", " ", [], ".ml"),
    "plantuml": ("'", " ", ("/'", "'", "'/"), " ", " ", " ", [], ".puml"),
    "python": ("#", " ", ("", "", ""), "", "", "", ["#!"], ".py"),
    "rst": ("..", " ", ("", "", ""), "", "", "", [], ".rst"),
    "semicolon": (";", " ", ("", "", ""), "", "", "", [], ".ini"),
    "tex": ("%", " ", ("", "", ""), "", "", "", ["% !TEX", "%!TEX", "#!"], ".tex"),
    "vim": ('"', " ", ("", "", ""), "", "", "", [], ".vim"),
    "vst": ("", "", ("#*", "  ", "*#"), "", "", "", [], ".vm"),
    "xquery": ("", "", ("(:", ":", ":)"), " ", " ", " ", [], ".xq"),
}
STYLE_NAMES = sorted(STYLES)
UNCOMMENTABLE_EXT = [".json", ".csv", ".png", ".svg", ".pdf", ".jpg"]
UNKNOWN_EXT = [".foo", ".unknownext", ".zzz", ""]

VALID = ["MIT", "GPL-3.0-or-later", "Apache-2.0", "CC0-1.0", "BSD-3-Clause", "0BSD", "EUPL-1.2"]
DEPRECATED = ["GPL-2.0", "LGPL-2.1", "AGPL-3.0"]
EXCEPTIONS = ["Classpath-exception-2.0", "GCC-exception-3.1"]
LICENSEREF = ["LicenseRef-Custom", "LicenseRef-Other.1"]
UNKNOWN = ["Foo-1.0", "mit"]

# bytes that binaryornot really classifies as binary (note: '\x89' in a str would be encoded as two UTF-8 bytes; raw
# bytes above 0x7f have to be written as surrogate escapes)
BINARY = "\udc89PNG\r\n\x1a\n\x00\x00\x00\rIHDR\x00\x00\x01\x00" + "\udcfe\x00\x01\udcff" * 40

HOLDERS = [
    "Jane Doe", "John Smith <john@example.org>", "ACME Corp.", "Ünï Cödé GmbH",
    "O'Brien & Sons", "Free Software Foundation Europe e.V. <https://fsfe.org>",
    "Mary Sue", "Contributors to the project",
]
TERMINATORS = ["*)", "--%>", "}", "*/", "-->", "--}}", "#}", "=#", "'/", "*#", ":)"]


def can_single(style):
    return bool(STYLES[style][0])


def can_multi(style):
    s = STYLES[style][2]
    return bool(s[0] and s[2])


def comment(style, text, multi=False):
    """Comment *text* the way the tool's own create_comment would (canonical form)."""
    single, ias, (start, middle, end), ibm, iam, ibe, _, _ = STYLES[style]
    lines = text.split("\n")
    if multi or not single:
        out = [start]
        for line in lines:
            r = (ibm + middle) if middle else ""
            if line:
                r += iam + line
            out.append(r)
        out.append(ibe + end)
        return "\n".join(out)
    out = []
    for line in lines:
        r = single
        if line:
            r += ias + line
        out.append(r)
    return "\n".join(out)


def header_text(copyrights, licenses, contributors=()):
    """The default template's rendering."""
    parts = []
    if copyrights:
        parts.append("\n".join(sorted(copyrights)))
    if contributors:
        parts.append("\n".join("SPDX-FileContributor: " + c for c in sorted(contributors)))
    if licenses:
        parts.append("\n".join("SPDX-License-Identifier: " + l for l in sorted(licenses)))
    return "\n\n".join(parts)


def spdx_copyright(holder, year=None):
    return f"SPDX-FileCopyrightText: {year} {holder}" if year else f"SPDX-FileCopyrightText: {holder}"


BODIES = {
    "python": "import os\n\n\ndef main():\n    return os.getcwd()\n",
    "c": "#include <stdio.h>\n\nint main(void) { return 0; }\n",
    "cpp": "#include <iostream>\nint main() { return 0; }\n",
    "html": "<html>\n<body>hello</body>\n</html>\n",
    "julia": "function f(x)\n    x + 1\nend\n",
    "tex": "\\documentclass{article}\n\\begin{document}x\\end{document}\n",
    "haskell": "module Main where\nmain = return ()\n",
    "lisp": "(defun f (x) (+ x 1))\n",
    "ml": "let f x = x + 1\n",
    "jinja": "{% for x in y %}{{ x }}{% endfor %}\n",
    "css": "body { color: red; }\n",
}


def body_for(style, rng=None):
    return BODIES.get(style, "some content\nmore content\n")


def toml_str(s):
    return '"' + s.replace("\\", "\\\\").replace('"', '\\"') + '"'


def toml_value(v):
    if isinstance(v, str):
        return toml_str(v)
    if isinstance(v, bool):
        return "true" if v else "false"
    if isinstance(v, (int, float)):
        return repr(v)
    if isinstance(v, list):
        return "[" + ", ".join(toml_value(x) for x in v) + "]"
    if isinstance(v, dict):
        return "{ " + ", ".join(f"{k} = {toml_value(x)}" for k, x in v.items()) + " }"
    raise TypeError(v)


def reuse_toml(tables, version=1):
    out = [f"version = {version}", ""]
    for t in tables:
        out.append("[[annotations]]")
        for k, v in t.items():
            key = k if k.isidentifier() else toml_str(k)
            out.append(f"{key} = {toml_value(v)}")
        out.append("")
    return "\n".join(out)


def dep5(paragraphs, header=True):
    out = []
    if header:
        out.append("Format: https://www.debian.org/doc/packaging-manuals/copyright-format/1.0/")
        out.append("Upstream-Name: sim")
        out.append("Upstream-Contact: Jane <jane@example.org>")
        out.append("Source: https://example.org/sim")
        out.append("")
    for p in paragraphs:
        files = p["files"]
        out.append("Files: " + ("\n ".join(files) if isinstance(files, list) else files))
        cr = p["copyright"]
        if p.get("copyright_nl"):
            out.append("Copyright:\n " + ("\n ".join(cr) if isinstance(cr, list) else cr))
        else:
            out.append("Copyright: " + ("\n ".join(cr) if isinstance(cr, list) else cr))
        out.append("License: " + p["license"])
        if p.get("comment"):
            out.append("Comment: " + p["comment"])
        out.append("")
    return "\n".join(out)
