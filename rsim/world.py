"""Render a plan's world to a real directory tree on tmpfs; take and diff snapshots."""
import hashlib
import os
import shutil
import stat
import subprocess

T0 = 1_000_000_000  # every entry's mtime after a snapshot: 2001-09-09
T0_NS = T0 * 1_000_000_000
DEFAULT_CLOCK = "2024-06-15T12:00:00"
CONTENT_CAP = 65536


def scratch_base():
    for cand in ("/dev/shm", os.environ.get("TMPDIR") or "/var/tmp"):
        if os.path.isdir(cand) and os.access(cand, os.W_OK):
            return os.path.join(cand, "rv")
    return "/var/tmp/rv"


def enc(s):
    return s.encode("utf-8", "surrogateescape") if isinstance(s, str) else bytes(s)


def dec(b):
    return b.decode("utf-8", "surrogateescape")


GIT_ENV = {
    "GIT_CONFIG_GLOBAL": "/dev/null", "GIT_CONFIG_NOSYSTEM": "1",
    "GIT_AUTHOR_NAME": "Sim", "GIT_AUTHOR_EMAIL": "sim@example.org",
    "GIT_COMMITTER_NAME": "Sim", "GIT_COMMITTER_EMAIL": "sim@example.org",
    "GIT_AUTHOR_DATE": "2001-09-09T01:46:40Z", "GIT_COMMITTER_DATE": "2001-09-09T01:46:40Z",
    "GIT_TERMINAL_PROMPT": "0", "GIT_OPTIONAL_LOCKS": "1",
    "LC_ALL": "C.UTF-8", "LANG": "C.UTF-8", "LANGUAGE": "en", "TZ": "UTC",
}


def hermetic_env():
    for k in list(os.environ):
        if k.startswith("GIT_") or k in ("_SUPPRESS_DEP5_WARNING", "PYTHONWARNINGS"):
            del os.environ[k]
    os.environ.update(GIT_ENV)


def _git(root, *args):
    r = subprocess.run(["git", *args], cwd=root, stdout=subprocess.PIPE, stderr=subprocess.PIPE)
    if r.returncode:
        raise RuntimeError(f"git {args} failed: {r.stderr.decode()[:300]}")
    return r.stdout


def _write_tree(base, entries):
    for f in entries or []:
        p = os.path.join(base, f["path"])
        os.makedirs(os.path.dirname(p), exist_ok=True)
        with open(p, "wb") as fp:
            fp.write(enc(f.get("content", "")))
        if "mode" in f:
            os.chmod(p, f["mode"])


def build(world, base):
    """Create base/{p,s,h,x}. Returns ctx paths."""
    if os.path.lexists(base):
        shutil.rmtree(base, ignore_errors=True)
    root = os.path.join(base, world.get("root_name", "p"))
    sentinel, home, scratch = (os.path.join(base, d) for d in ("s", "h", "x"))
    for d in (root, sentinel, home, scratch):
        os.makedirs(d)
    os.environ["HOME"] = home
    if (world.get("git") or {}).get("use_home_config"):
        # the user's own Git configuration (core.excludesFile ...) is part of this world
        os.environ["GIT_CONFIG_GLOBAL"] = os.path.join(home, ".gitconfig")
    else:
        os.environ["GIT_CONFIG_GLOBAL"] = "/dev/null"
    _write_tree(sentinel, world.get("sentinel"))
    _write_tree(home, world.get("home"))
    for d in world.get("sentinel_dirs") or []:
        os.makedirs(os.path.join(sentinel, d), exist_ok=True)
    _write_tree(root, world.get("files"))
    for d in world.get("dirs") or []:
        os.makedirs(os.path.join(root, d), exist_ok=True)
    for l in world.get("symlinks") or []:
        p = os.path.join(root, l["path"])
        os.makedirs(os.path.dirname(p), exist_ok=True)
        t = l["target"]
        if t.startswith("@S/"):
            t = os.path.join(sentinel, t[3:])
        os.symlink(t, p)
    for l in world.get("hardlinks") or []:
        # a second name for the same inode
        p = os.path.join(root, l["path"])
        os.makedirs(os.path.dirname(p), exist_ok=True)
        if os.path.lexists(os.path.join(root, l["target"])):  # the shrinker may have dropped the target
            os.link(os.path.join(root, l["target"]), p)
    for l in world.get("sentinel_links") or []:
        # a symlink outside the project that points into it (a second way to spell the root)
        p = os.path.join(sentinel, l["path"])
        os.makedirs(os.path.dirname(p), exist_ok=True)
        os.symlink(os.path.join(root, l["target"]) if l["target"] != "." else root, p)
    for f in world.get("fifos") or []:
        p = os.path.join(root, f)
        os.makedirs(os.path.dirname(p), exist_ok=True)
        os.mkfifo(p)
    paths = {"root": root, "sentinel": sentinel, "home": home, "scratch": scratch, "base": base}
    g = world.get("git")
    if g:
        # "above": the repository's top level is the directory above the project (the project is one package of a
        # larger work tree); everything else is done from inside the project as before
        _git(base if g.get("above") else root, "init", "-q", "-b", "main")
        _git(root, "add", *(["-f"] if g.get("force") else []), "--", ".")
        if g.get("force_add"):
            # tracked although a .gitignore pattern matches: Git does not ignore tracked files
            _git(root, "add", "-f", "--", *g["force_add"])
        for u in g.get("untracked") or []:
            subprocess.run(["git", "rm", "--cached", "-q", "--", u], cwd=root,
                           stdout=subprocess.PIPE, stderr=subprocess.PIPE)
        if g.get("commit", True):
            r = subprocess.run(["git", "commit", "-q", "-m", "init", "--allow-empty"], cwd=root,
                               stdout=subprocess.PIPE, stderr=subprocess.PIPE)
            if r.returncode:
                raise RuntimeError("git commit failed: " + r.stderr.decode()[:300])
    # the age of entries when the history starts (label -> ISO instant); everything else is T0
    paths["mt"] = {rel: clock_ns(iso) for rel, iso in (world.get("mtimes") or {}).items()}
    normalise_mtimes(paths)
    return paths


def git_ignored(root, rels):
    """Git's own answer (check-ignore) for the given project-relative paths."""
    if not rels:
        return set()
    r = subprocess.run(["git", "check-ignore", "-z", "--stdin"], cwd=root,
                       input="\0".join(rels).encode("utf-8", "surrogateescape") + b"\0", stdout=subprocess.PIPE, stderr=subprocess.PIPE)
    return {x for x in r.stdout.decode("utf-8", "surrogateescape").split("\0") if x}


def _iter_tree(top, tag):
    for dirpath, dirnames, filenames in os.walk(top):
        if ".git" in dirnames:
            dirnames.remove(".git")
        dirnames.sort()
        rel = os.path.relpath(dirpath, top)
        for name in sorted(dirnames) + sorted(filenames):
            p = os.path.join(dirpath, name)
            r = name if rel == "." else f"{rel}/{name}"
            yield p, (f"{tag}/{r}" if tag else r)
    yield top, (f"{tag}/." if tag else ".")


def clock_ns(iso):
    """The simulated instant of a step as nanoseconds since the epoch (UTC)."""
    import calendar
    import time as _time
    iso = iso or DEFAULT_CLOCK
    return calendar.timegm(_time.strptime(iso[:19], "%Y-%m-%dT%H:%M:%S")) * 1_000_000_000


def snapshot(paths, with_content=False):
    """label -> [type, mode, size, sha1-or-target, touched]; touched = mtime differs from the one the simulated file
    system last gave the entry (paths["mt"], default T0)."""
    snap = {}
    contents = {}
    mt = paths.setdefault("mt", {})
    for key, tag in (("root", ""), ("sentinel", "@S"), ("home", "@H")):
        top = paths[key]
        for p, label in _iter_tree(top, tag):
            try:
                st = os.lstat(p)
            except OSError:
                continue
            touched = st.st_mtime_ns != mt.get(label, T0_NS)
            if stat.S_ISLNK(st.st_mode):
                snap[label] = ["l", 0, 0, os.readlink(p), touched]
            elif stat.S_ISDIR(st.st_mode):
                snap[label] = ["d", stat.S_IMODE(st.st_mode), 0, "", touched]
            elif stat.S_ISREG(st.st_mode):
                with open(p, "rb") as fp:
                    data = fp.read()
                snap[label] = ["f", stat.S_IMODE(st.st_mode), st.st_size, hashlib.sha1(data).hexdigest(), touched]
                if with_content and len(data) <= CONTENT_CAP:
                    contents[label] = data
            else:
                snap[label] = ["o", stat.S_IMODE(st.st_mode), 0, "", touched]
    return snap, contents


def normalise_mtimes(paths, touched=None, now_ns=None):
    """Give every entry the modification time the simulated file system says it has: entries named in *touched* were
    written by the command that just ran and get the simulated instant *now_ns*; all others keep what they had
    (T0 unless the plan aged them). The kernel's own stamps (real time) never survive a step."""
    mt = paths.setdefault("mt", {})
    if touched and now_ns is not None:
        for label in touched:
            mt[label] = now_ns
    seen = set()
    for key, tag in (("root", ""), ("sentinel", "@S"), ("home", "@H")):
        for p, label in _iter_tree(paths[key], tag):
            seen.add(label)
            t = mt.get(label, T0_NS)
            try:
                os.utime(p, ns=(t, t), follow_symlinks=False)
            except OSError:
                pass
    for label in [l for l in mt if l not in seen]:
        del mt[label]


def diff(before, after, contents):
    """Entries that changed, appeared or disappeared; 'touched' counts as a change."""
    out = {}
    for label in sorted(set(before) | set(after)):
        b, a = before.get(label), after.get(label)
        if a is not None and (b is None or b[:4] != a[:4] or a[4]):
            d = {"before": b[:4] if b else None, "after": a[:4], "touched": bool(a[4])}
            if label in contents:
                d["content"] = dec(contents[label])
            out[label] = d
        elif a is None and b is not None:
            out[label] = {"before": b[:4], "after": None, "touched": False}
    return out


def apply_user_op(paths, op):
    root = paths["root"]
    p = os.path.join(root, op["path"]) if not op["path"].startswith("@S/") else os.path.join(paths["sentinel"], op["path"][3:])
    kind = op["op"]
    try:
        if kind == "write":
            os.makedirs(os.path.dirname(p), exist_ok=True)
            with open(p, "wb") as fp:
                fp.write(enc(op.get("content", "")))
        elif kind == "delete":
            if os.path.isdir(p) and not os.path.islink(p):
                shutil.rmtree(p)
            else:
                os.unlink(p)
        elif kind == "mkdir":
            os.makedirs(p, exist_ok=True)
        elif kind == "chmod":
            os.chmod(p, op["mode"])
        else:
            return "unknown-op"
    except OSError as e:
        return f"noop:{type(e).__name__}"
    return "ok"
