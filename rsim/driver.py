"""Driver side: a farm of executors (one interpreter per PYTHONHASHSEED value) and job dispatch."""
import json
import os
import queue
import subprocess
import sys
import threading

HASHSEEDS = 8
PY = os.environ.get("RSIM_PYTHON", "/venv/bin/python")
HERE = os.path.dirname(os.path.dirname(os.path.abspath(__file__)))


class HarnessError(Exception):
    pass


class _Exec:
    def __init__(self, hashseed, extra_env=None):
        env = dict(os.environ)
        env["PYTHONHASHSEED"] = str(hashseed)
        env["PYTHONPATH"] = HERE + (os.pathsep + env["PYTHONPATH"] if env.get("PYTHONPATH") else "")
        env["PYTHONDONTWRITEBYTECODE"] = "1"
        env.pop("PYTHONWARNINGS", None)
        if extra_env:
            env.update(extra_env)
        self.hashseed = hashseed
        self.p = subprocess.Popen([PY, "-m", "rsim.executor"], stdin=subprocess.PIPE, stdout=subprocess.PIPE,
                                  env=env, text=True, cwd=HERE, bufsize=1)
        line = self.p.stdout.readline()
        try:
            self.hello = json.loads(line)
        except ValueError:
            raise HarnessError(f"executor did not start: {line!r}")
        if "fatal" in self.hello:
            raise HarnessError(self.hello["fatal"])

    def run(self, job):
        self.p.stdin.write(json.dumps(job) + "\n")
        self.p.stdin.flush()
        line = self.p.stdout.readline()
        if not line:
            raise HarnessError(f"executor (hashseed {self.hashseed}) died, rc={self.p.poll()}")
        return json.loads(line)

    def close(self):
        try:
            self.p.stdin.close()
        except Exception:
            pass
        try:
            self.p.wait(timeout=10)
        except Exception:
            self.p.kill()


class Farm:
    """N worker threads, each owning executor processes. Executor processes have a fixed
    PYTHONHASHSEED; jobs name the hash seed they need; results are returned by job id,
    so completion order is irrelevant to what the driver computes."""

    def __init__(self, n=None, extra_env=None, hashseeds=HASHSEEDS):
        self.n = max(1, n or int(os.environ.get("RSIM_EXECUTORS", os.cpu_count() or 4)))
        self.hashseeds = hashseeds
        self.extra_env = extra_env
        self.queues = [queue.Queue() for _ in range(hashseeds)]
        self.results = queue.Queue()
        self.hello = None
        self.lock = threading.Lock()
        self.fatal = None
        self.threads = []
        for i in range(self.n):
            if self.n >= hashseeds:
                served = [i % hashseeds]
            else:
                served = [h for h in range(hashseeds) if h % self.n == i]
            t = threading.Thread(target=self._loop, args=(i, served), daemon=True)
            self.threads.append(t)
        for t in self.threads:
            t.start()

    def _loop(self, i, served):
        ex = {}
        try:
            while True:
                job = None
                for h in served:
                    try:
                        job = self.queues[h].get(timeout=0.01 if len(served) > 1 else 0.25)
                        break
                    except queue.Empty:
                        continue
                if job is None:
                    continue
                if job == "stop":
                    break
                h = job["hashseed"]
                try:
                    if h not in ex:
                        ex[h] = _Exec(h, self.extra_env)
                        with self.lock:
                            self.hello = self.hello or ex[h].hello
                    out = ex[h].run(job)
                except Exception as e:  # noqa: BLE001
                    bad = ex.pop(h, None)
                    if bad is not None:
                        bad.close()
                    out = {"id": job["id"], "error": f"harness: {type(e).__name__}: {e}"}
                self.results.put(out)
        except BaseException as e:  # noqa: BLE001
            self.fatal = f"farm thread {i} died: {type(e).__name__}: {e}"
        finally:
            for e in ex.values():
                e.close()

    def submit(self, job):
        h = int(job.get("hashseed", 0)) % self.hashseeds
        job["hashseed"] = h
        self.queues[h].put(job)

    def run_all(self, jobs, timeout_s=900):
        """Execute jobs; return {id: result}."""
        import time
        jobs = list(jobs)
        for j in jobs:
            self.submit(j)
        out = {}
        deadline = time.monotonic() + timeout_s
        while len(out) < len(jobs):
            try:
                r = self.results.get(timeout=1.0)
            except queue.Empty:
                if self.fatal:
                    raise HarnessError(self.fatal)
                if not any(t.is_alive() for t in self.threads):
                    raise HarnessError("all farm threads are dead")
                if time.monotonic() > deadline:
                    raise HarnessError(f"batch of {len(jobs)} jobs not finished after {timeout_s}s")
                continue
            out[r["id"]] = r
        return out

    def close(self):
        for i in range(self.n):
            self.queues[i % self.hashseeds].put("stop")
        for t in self.threads:
            t.join(timeout=15)
