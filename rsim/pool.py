"""SimForkPool: a stand-in for multiprocessing.Pool whose schedule the plan decides.

Real forked worker processes, real pickling of tasks and results (the same
ForkingPickler the real pool uses), but exactly one worker runs at a time and
the simulator alone decides the number of workers, which task goes to which
worker and the order in which tasks are released.
"""
import multiprocessing
import multiprocessing.pool
import os
import random
from multiprocessing.connection import Pipe

from . import seams
from .prf import prf

ORIG_POOL = multiprocessing.Pool


class SimForkPool:
    def __init__(self, processes=None, initializer=None, initargs=(), maxtasksperchild=None):
        if processes is not None and processes < 1:
            raise ValueError("Number of processes must be at least 1")  # as multiprocessing.Pool does
        sim = seams.SIM
        cfg = sim.cfg.get("pool") or {}
        self.sim = sim
        self.key = cfg.get("key", 0)
        self.n = int(cfg.get("n") or processes or 2)
        self.chunk = cfg.get("chunk")
        self.workers = []
        self.closed = False
        conns = []
        for w in range(self.n):
            parent_conn, child_conn = Pipe()
            pid = os.fork()
            if pid == 0:
                try:
                    parent_conn.close()
                    for _, c in conns:
                        c.close()
                    sim.role = f"W{w}"
                    sim.crash_at = None
                    try:
                        from .executor import die_with_parent
                        die_with_parent()
                    except Exception:
                        pass
                    _restart_probes()
                    if initializer:
                        initializer(*initargs)
                    self._worker_loop(child_conn)
                finally:
                    os._exit(0)
            child_conn.close()
            conns.append((pid, parent_conn))
        self.workers = conns

    # ---- worker side ---------------------------------------------------------------
    def _worker_loop(self, conn):
        sim = self.sim
        while True:
            try:
                msg = conn.recv()
            except EOFError:
                return
            if msg is None:
                return
            j, func, chunk = msg
            random.seed(prf(self.key, "rnd", j))
            t0, f0 = len(sim.trace), len(sim.fired)
            try:
                res = (True, [func(x) for x in chunk])
            except BaseException as exc:  # noqa: BLE001 - mirrors pool.worker
                res = (False, exc)
            extra = {
                "trace": sim.trace[t0:], "fired": sim.fired[f0:],
                "probes": sorted(sim.probes), "dropped": sim.trace_dropped,
            }
            try:
                conn.send((j, res, extra))
            except Exception as exc:  # result does not pickle
                wrapped = multiprocessing.pool.MaybeEncodingError(exc, res[1])
                conn.send((j, (False, wrapped), extra))

    # ---- parent side ---------------------------------------------------------------
    def map(self, func, iterable, chunksize=None):
        sim = self.sim
        items = list(iterable)
        for m in sim.mutations:
            at = m.get("at") or {}
            if at.get("point") == "after_enum" and not m.get("done"):
                m["done"] = True
                sim.apply_mutation(m["do"])
        if not items:
            self.sig = [self.n, 0, [], []]
            sim.pool_sigs.append(self.sig)
            return []
        if chunksize is None:
            chunksize, extra = divmod(len(items), self.n * 4)
            if extra:
                chunksize += 1
        if self.chunk:
            chunksize = max(1, min(len(items), int(self.chunk)))
        tasks = [items[i:i + chunksize] for i in range(0, len(items), chunksize)]
        assign = [prf(self.key, "as", j) % self.n for j in range(len(tasks))]
        queues = [[j for j in range(len(tasks)) if assign[j] == w] for w in range(self.n)]
        results = [None] * len(tasks)
        order = []
        step = 0
        error = None
        while True:
            ready = [w for w in range(self.n) if queues[w]]
            if not ready:
                break
            w = ready[prf(self.key, "rel", step) % len(ready)]
            j = queues[w].pop(0)
            for m in sim.mutations:
                at = m.get("at") or {}
                if at.get("point") == "before_release" and at.get("i") == step and not m.get("done"):
                    m["done"] = True
                    sim.apply_mutation(m["do"])
            step += 1
            order.append(j)
            conn = self.workers[w][1]
            conn.send((j, func, tasks[j]))
            jj, res, extra = conn.recv()
            for ev in extra["trace"]:
                if len(sim.trace) < seams.TRACE_CAP:
                    sim.trace.append(ev)
                else:
                    sim.trace_dropped += 1
            sim.fired.extend(extra["fired"])
            sim.probes.update(extra["probes"])
            ok, val = res
            if ok:
                results[jj] = val
            elif error is None:
                error = val
        self.sig = [self.n, chunksize, assign, order]
        sim.pool_sigs.append(self.sig)
        self.last_order = order
        self.last_results = results
        if error is not None:
            raise error
        return [x for chunk in results for x in chunk]

    def imap(self, func, iterable, chunksize=1):
        return iter(self.map(func, iterable, chunksize))

    def imap_unordered(self, func, iterable, chunksize=1):
        """Results in the order in which the tasks COMPLETED, which under this scheduler is the order in which they
        were released (one task runs at a time)."""
        self.map(func, iterable, chunksize)
        order = getattr(self, "last_order", [])
        results = getattr(self, "last_results", [])
        return iter([x for j in order for x in results[j]])

    def starmap(self, func, iterable, chunksize=None):
        return self.map(_Star(func), [tuple(a) for a in iterable], chunksize)

    def apply(self, func, args=(), kwds=None):
        return self.map(_Star(func, kwds or {}), [tuple(args)])[0]

    def apply_async(self, func, args=(), kwds=None, callback=None, error_callback=None):
        return self._later(_Async(lambda: self.apply(func, args, kwds), callback, error_callback))

    def map_async(self, func, iterable, chunksize=None, callback=None, error_callback=None):
        items = list(iterable)
        return self._later(_Async(lambda: self.map(func, items, chunksize), callback, error_callback))

    def starmap_async(self, func, iterable, chunksize=None, callback=None, error_callback=None):
        items = [tuple(a) for a in iterable]
        return self._later(_Async(lambda: self.starmap(func, items, chunksize), callback, error_callback))

    def _later(self, res):
        self.__dict__.setdefault("_pending", []).append(res)
        return res

    def close(self):
        if self.closed:
            return
        for res in self.__dict__.get("_pending", []):
            res._run()  # work submitted asynchronously is done before the pool goes away
        self.closed = True
        for pid, conn in self.workers:
            try:
                conn.send(None)
            except Exception:
                pass
            conn.close()

    def terminate(self):
        self.close()

    def join(self):
        for pid, _ in self.workers:
            try:
                os.waitpid(pid, 0)
            except ChildProcessError:
                pass
        self.workers = []

    def __enter__(self):
        return self

    def __exit__(self, *a):
        self.terminate()


class _Star:
    """Picklable adapter: call func(*args, **kwds)."""

    def __init__(self, func, kwds=None):
        self.func, self.kwds = func, kwds or {}

    def __call__(self, args):
        return self.func(*args, **self.kwds)


class _Async:
    """AsyncResult stand-in: the work is done (under the simulated schedule) when the result is first asked for, or
    at the latest when the pool is closed and joined - the caller cannot observe the difference."""

    def __init__(self, thunk, callback, error_callback):
        self._thunk, self._cb, self._ecb = thunk, callback, error_callback
        self._done, self._val, self._exc = False, None, None

    def _run(self):
        if not self._done:
            self._done = True
            try:
                self._val = self._thunk()
                if self._cb:
                    self._cb(self._val)
            except BaseException as exc:  # noqa: BLE001
                self._exc = exc
                if self._ecb:
                    self._ecb(exc)

    def get(self, timeout=None):
        self._run()
        if self._exc is not None:
            raise self._exc
        return self._val

    def wait(self, timeout=None):
        self._run()

    def ready(self):
        self._run()
        return True

    def successful(self):
        self._run()
        return self._exc is None


def _restart_probes():
    try:
        import sys
        sys.monitoring.restart_events()
    except Exception:
        pass
